(* C08 proofs, part 2: the commands.  Generic commands (push, pop, goto, float, sink, delete,
   hide, unhide, commit, clean) keep any monotone, recommit-closed predicate on the patches;
   the others are treated one by one. *)
From Coq Require Import Lia List NArith Bool.
From StgV Require Import Model.StackSpec Model.IdentSpec.
From StgV Require Import Proofs.WfBasics Proofs.WfFrame Proofs.MirrorProofs Proofs.WfTxn Proofs.WfCmd.
From StgV Require Import Proofs.IdentTxn.
From StgV Require Proofs.ReachBase Proofs.ReachEvolve Proofs.ReachStep Proofs.CommitProofs
  Proofs.NoPanicExec Proofs.ChainExec.
Import ListNotations.
Local Open Scope nat_scope.

(* ---------------------------------------------------------------- C08_commits_immutable *)

Lemma step_extends : forall lower_s w c, store_extends (w_objs w) (w_objs (fst (step lower_s w c))).
Proof.
  intros lower_s w c. exact (ReachEvolve.evolve_extends _ _ _ _ _ (ReachStep.step_ev lower_s w c)).
Qed.

Lemma commits_immutable :
  forall lower_s w c o cm,
    get (w_objs w) o = Some cm -> get (w_objs (fst (step lower_s w c))) o = Some cm.
Proof.
  intros lower_s w c o cm H. eapply ReachBase.get_ext; [apply step_extends|exact H].
Qed.

(* ---------------------------------------------------------------- driver *)

#[export] Hint Resolve push_patches_sat push_tree_list_sat reorder_sat commit_sat hide_sat unhide_sat
  push_patch_sat push_list_sat push_tree_sat repair_appliedness_sat : sat.

Ltac sat_closure :=
  cbv beta;
  repeat match goal with
  | |- rsat _ (match delete_patches ?f ?t with _ => _ end) => apply delete_push_sat; assumption
  | |- rsat _ (if ?b then _ else _) => destruct b
  | |- rsat _ (match ?x with _ => _ end) => destruct x
  end; first [exact I | solve [auto with sat]].

Ltac sat_transact :=
  match goal with
  | HQ : Qok ?Q, Hm : op_mir ?op, Hw : wsat ?Q (op_world ?op) |- wsat ?Q (fst (transact ?op _ _ _)) =>
      let T := fresh "T" in
      apply transact_sat; [exact (q_mono Q HQ)|exact Hm|frame_auto|exact Hw|intros _ T; sat_closure]
  end.

Ltac sat_leaf :=
  cbn [fst err2 ok0]; first [assumption | sat_transact].

Ltac sat_destruct :=
  match goal with
  | |- wsat _ (fst (rres_bind _ ?r _)) => destruct r; cbn [rres_bind]
  | HQ : Qok ?Q, Hw : wsat ?Q ?w |- context [match open_stack ?p ?w with _ => _ end] =>
      let E := fresh "Eo" in let Hw' := fresh "Hw" in
      destruct (open_stack p w) as [?op|] eqn:E;
      [pose proof (open_sat Q p w _ (q_mono Q HQ) E ltac:(discriminate) Hw) as Hw'; apply open_op_mir in E|]
  | |- context [match ?x with _ => _ end] =>
      lazymatch x with
      | context [match _ with _ => _ end] => fail
      | _ => destruct x
      end
  | |- wsat _ (fst (if ?b then _ else _)) => destruct b
  | |- wsat _ (fst (match ?x with _ => _ end)) => destruct x
  end.

Ltac sat := repeat (first [sat_leaf | sat_destruct]).

Section Generic.
  Variable Q : pred.
  Hypothesis HQ : Qok Q.

  Lemma run_push_sat : forall w r n al rv na st mg kp cf,
    wsat Q w -> wsat Q (fst (run_push w r n al rv na st mg kp cf)).
  Proof. intros. unfold run_push. sat. Qed.

  Lemma run_pop_sat : forall w r n al kp sp, wsat Q w -> wsat Q (fst (run_pop w r n al kp sp)).
  Proof. intros. unfold run_pop. sat. Qed.

  Lemma run_goto_sat : forall w l kp mg cf, wsat Q w -> wsat Q (fst (run_goto w l kp mg cf)).
  Proof. intros. unfold run_goto. sat. Qed.

  Lemma run_float_sat : forall w r na kp, wsat Q w -> wsat Q (fst (run_float w r na kp)).
  Proof. intros. unfold run_float. sat. Qed.

  Lemma run_sink_sat : forall w r t np kp, wsat Q w -> wsat Q (fst (run_sink w r t np kp)).
  Proof. intros. unfold run_sink. sat. Qed.

  Lemma run_delete_sat : forall w r tp al a u h sp cf,
    wsat Q w -> wsat Q (fst (run_delete w r tp al a u h sp cf)).
  Proof. intros. unfold run_delete. sat. Qed.

  Lemma run_hide_sat : forall w r, wsat Q w -> wsat Q (fst (run_hide w r)).
  Proof. intros. unfold run_hide. sat. Qed.

  Lemma run_unhide_sat : forall w r, wsat Q w -> wsat Q (fst (run_unhide w r)).
  Proof. intros. unfold run_unhide. sat. Qed.

  Lemma run_commit_sat : forall w r n al ae, wsat Q w -> wsat Q (fst (run_commit w r n al ae)).
  Proof. intros. unfold run_commit. sat. Qed.

  Lemma run_clean_sat : forall w a u, wsat Q w -> wsat Q (fst (run_clean w a u)).
  Proof. intros. unfold run_clean. sat. Qed.
End Generic.

(* ---------------------------------------------------------------- facts from the invariant *)

Lemma inv_patch : forall w n o, Inv w -> patch_commit w n = Some o -> is_patch_commit (w_objs w) o.
Proof.
  intros w n o [_ [Hs _]] E. unfold patch_commit, cur_state in E.
  destruct (w_stack w) as [so|]; [|discriminate].
  destruct (state_of (w_objs w) so) as [s|] eqn:Es; [|discriminate].
  destruct (Hs so s Es) as [_ [_ [_ [Hp _]]]]. now apply (Hp n).
Qed.

Lemma inv_patch_get : forall w n o, Inv w -> patch_commit w n = Some o -> exists c, get (w_objs w) o = Some c.
Proof. intros w n o Hi E. destruct (inv_patch w n o Hi E) as [[c [Hc _]] _]. eauto. Qed.

Lemma get_lt : forall objs o c, get objs o = Some c -> o < length objs.
Proof. intros objs o c H. apply nth_error_Some. unfold get in H. congruence. Qed.

Lemma plain_lt : forall objs o, is_plain objs o -> o < length objs.
Proof. intros objs o [c [H _]]. now apply get_lt in H. Qed.

Lemma open_cur : forall p w op,
  open_stack p w = Some op -> op_initialized op = true -> cur_state (op_world op) = Some (op_state op).
Proof.
  intros p w op H Hi. apply open_op_mir in H as [_ [H|[_ H]]]; [exact H|congruence].
Qed.

(* ---------------------------------------------------------------- the identity predicate *)

Section Ident.
  Variable w : world.

  (* [o'] exists and carries the author/message of the commit patch [n] had in [w] *)
  Definition Qid : pred := fun objs n o' =>
    exists c o c0, get objs o' = Some c /\ patch_commit w n = Some o /\ get (w_objs w) o = Some c0
                   /\ c_meta c = c_meta c0 /\ c_subj c = c_subj c0.

  Lemma Qid_mono : Qmono Qid.
  Proof.
    intros a b n o' [e ->] [c [o [c0 [H1 H2]]]]. exists c, o, c0. split; [|exact H2]. now apply get_app_l.
  Qed.

  Lemma Qid_ok : Qok Qid.
  Proof.
    split; [exact Qid_mono|].
    intros objs n o' ps tr [c [o [c0 [H1 [H2 [H3 [H4 H5]]]]]]].
    eexists _, o, c0. split; [apply get_put_new|]. split; [exact H2|]. split; [exact H3|].
    unfold subj_of. rewrite H1. cbn. auto.
  Qed.

  Lemma Qid_init : Inv w -> wsat Qid w.
  Proof.
    intros Hi n o E. destruct (inv_patch_get w n o Hi E) as [c Hc]. exists c, o, c. auto.
  Qed.

  Lemma Qid_ident : forall objs n o',
    Qid objs n o' ->
    exists o, patch_commit w n = Some o /\ ident_of objs o' = ident_of (w_objs w) o.
  Proof.
    intros objs n o' [c [o [c0 [H1 [H2 [H3 [H4 H5]]]]]]]. exists o. split; [exact H2|].
    unfold ident_of. now rewrite H1, H3, H4, H5.
  Qed.

  (* under rename: some patch of [w] had this very commit *)
  Definition Qren : pred := fun _ _ o' => exists a, patch_commit w a = Some o'.

  Lemma Qren_mono : Qmono Qren.
  Proof. intros a b n o _ H. exact H. Qed.

  (* under uncommit: the identity is kept, or the name is new *)
  Definition Qunc : pred := fun objs n o' => Qid objs n o' \/ patch_commit w n = None.

  Lemma Qunc_mono : Qmono Qunc.
  Proof. intros a b n o He [H|H]; [left; now apply (Qid_mono a b)|now right]. Qed.
End Ident.

(* ---------------------------------------------------------------- init / inspect / log --clear *)

Lemma open_only_sat : forall Q p w,
  Qmono Q -> p <> PForce -> wsat Q w ->
  wsat Q (fst (match open_stack p w with Some op => (op_world op, X0) | None => err2 w end)).
Proof.
  intros Q p w HQ Hp Hw. destruct (open_stack p w) as [op|] eqn:Eo; [|exact Hw].
  cbn [fst]. now apply (open_sat Q p w).
Qed.

Lemma run_log_clear_sat : forall Q w, Qmono Q -> wsat Q w -> wsat Q (fst (run_log_clear w)).
Proof.
  intros Q w HQ Hw. unfold run_log_clear.
  destruct (open_stack PRequire w) as [op|] eqn:Eo; [|exact Hw].
  pose proof (open_sat Q _ _ _ HQ Eo ltac:(discriminate) Hw) as Hw1.
  assert (Hc : cur_state (op_world op) = Some (op_state op)).
  { apply (open_cur _ _ _ Eo). unfold open_stack in Eo. destruct (w_stack w); [|discriminate].
    destruct (state_of _ _); [|discriminate]. destruct (stack_base _ _ _); [|discriminate].
    now injection Eo as <-. }
  destruct (state_commit _ _ _) as [[objs' so]|] eqn:Ec; [|exact Hw1].
  apply state_commit_state in Ec as [Hx Ec]. cbn [fst].
  apply (wsat_kept Q (op_world op)); [exact HQ|exact Hx| |exact Hw1].
  eapply kept_cur; [exact Hc| |]; [unfold cur_state; cbn; exact Ec|reflexivity].
Qed.

(* ---------------------------------------------------------------- spill *)

Lemma cur_put_plain : forall w ps tr m sj,
  cur_state (with_objs w (w_objs w ++ [plain ps tr m sj])) = cur_state w.
Proof.
  intros w ps tr m sj. unfold cur_state, with_objs. cbn.
  destruct (w_stack w); [|reflexivity]. apply state_of_put_plain.
Qed.

Lemma run_spill_sat : forall Q w, Qok Q -> wsat Q w -> wsat Q (fst (run_spill w)).
Proof.
  intros Q w HQ Hw. unfold run_spill.
  destruct (open_stack PAllow w) as [op|] eqn:Eo; [|exact Hw].
  pose proof (open_sat Q _ _ _ (q_mono Q HQ) Eo ltac:(discriminate) Hw) as Hw1.
  apply open_op_mir in Eo.
  destruct (w_unmerged (op_world op)); [exact Hw1|].
  destruct (dirty (op_world op)); [exact Hw1|].
  destruct (negb (head_top_ok op)); [exact Hw1|].
  destruct (last_error (s_applied (op_state op))) as [pn|]; [|exact Hw1].
  destruct (pm_get (s_patches (op_state op)) pn) as [pc|] eqn:Epc; [|exact Hw1].
  destruct (first_parent (w_objs (op_world op)) pc) as [par|]; [|exact Hw1].
  unfold put. cbv beta iota zeta.
  apply transact_sat.
  - exact (q_mono Q HQ).
  - apply op_mir_with_objs; [exact Eo|apply store_extends_put].
  - frame_auto.
  - cbn [op_world]. now apply wsat_put_plain; [apply (q_mono Q HQ)|].
  - cbn [op_world op_state]. intros Hc T. rewrite cur_put_plain in Hc.
    apply update_patch_sat; [exact T|]. cbn [begin_txn t_objs op_world with_objs w_objs].
    apply (q_recommit Q HQ). apply Hw1. rewrite (patch_commit_cur _ _ Hc). exact Epc.
Qed.

(* ---------------------------------------------------------------- rename *)

Lemma run_rename_sat : forall w0 w o n, wsat (Qren w0) w -> wsat (Qren w0) (fst (run_rename w o n)).
Proof.
  intros w0 w o n Hw. unfold run_rename.
  destruct (from_str n) as [newn|]; [|exact Hw].
  destruct (match o with Some _ => _ | None => _ end) as [old_l|]; [|exact Hw].
  destruct (open_stack PAllow w) as [op|] eqn:Eo; [|exact Hw].
  pose proof (open_sat _ _ _ _ (Qren_mono w0) Eo ltac:(discriminate) Hw) as Hw1.
  apply open_op_mir in Eo.
  assert (K : forall oldn, wsat (Qren w0) (fst (transact op (opts CAllow (w_apc (op_world op)) false false true false)
                                                 (rename_patch oldn newn) MOp))).
  { intros oldn. apply transact_sat; [apply Qren_mono|exact Eo|frame_auto|exact Hw1|].
    intros Hc T. destruct (rename_patch oldn newn (begin_txn op _)) as [t'| | |] eqn:Er; try exact I.
    - intros m p E. destruct (rename_patch_src _ _ _ _ _ _ Er E) as [a [Ha|Ha]]; [now apply (T a)|].
      apply (Hw1 a). rewrite (patch_commit_cur _ _ Hc). exact Ha.
    - unfold rename_patch in Er.
      repeat match type of Er with
             | (if ?b then _ else _) = _ => destruct b
             | match ?x with _ => _ end = _ => destruct x
             end; discriminate. }
  destruct (match old_l with Some _ => _ | None => _ end); cbn [rres_bind fst]; try exact Hw1.
  destruct (stack_collides (op_state op) newn); [|apply K].
  destruct (mem newn (all_of (op_state op))); [exact Hw1|].
  destruct (negb _); [exact Hw1|apply K].
Qed.

(* ---------------------------------------------------------------- uncommit *)

Lemma run_uncommit_sat : forall lower_s, LowerOK lower_s ->
  forall w n names, Inv w -> wsat (Qunc w) (fst (run_uncommit lower_s w n names)).
Proof.
  intros lower_s HL w n names Hi. pose proof (Qid_init w Hi) as Hw0.
  assert (Hw : wsat (Qunc w) w) by (intros m o E; left; now apply Hw0).
  unfold run_uncommit.
  destruct (fold_right _ _ names) as [pnames|] eqn:Ep; [|exact Hw]. apply parsed_names_valid in Ep.
  destruct (open_stack PAuto w) as [op|] eqn:Eo; [|exact Hw].
  pose proof (open_sat _ _ _ _ (Qunc_mono w) Eo ltac:(discriminate) Hw) as Hw1.
  destruct (open_patches _ _ _ Eo ltac:(discriminate)) as [_ Hk].
  pose proof (open_ok _ _ _ Hi Eo) as Hok. pose proof (open_op_mir _ _ _ Eo) as Hm.
  destruct (negb (head_top_ok op)); [exact Hw1|].
  pose proof Hok as [Hiw [Hs Hb]]. pose proof Hs as [Hn _].
  cbv zeta.
  match goal with |- wsat _ (fst (match ?p with inl _ => _ | inr _ => _ end)) =>
    assert (Hplan : forall commits pns, p = inr (commits, pns) ->
              names_ok (pns ++ all_of (op_state op)));
    [|destruct p as [res|[commits pns]] eqn:Epl] end.
  { intros commits pns E. destruct n as [k|].
    - destruct (walk_down _ _ _) as [cs|] eqn:Ew; [|discriminate].
      destruct pnames as [|prefix [|? ?]]; try discriminate.
      + destruct (make_patchnames _ _ _ _) as [gen|] eqn:Eg; [|discriminate]. injection E as <- <-.
        now apply (proj2 (gen_names_ok lower_s HL _ _ _ _ Eg)).
      + destruct (forallb _ _) eqn:Ef; [|discriminate].
        destruct (check_patchnames _ _) eqn:Ec; [|discriminate]. injection E as <- <-.
        apply check_patchnames_ok; [exact Hn| |exact Ec].
        apply Forall_forall. intros x Hx. now apply (proj1 (forallb_forall _ _) Ef).
    - destruct pnames as [|pn0 pnames'].
      + destruct (walk_down _ _ _) as [cs|] eqn:Ew; [|discriminate].
        destruct (make_patchnames _ _ _ _) as [gen|] eqn:Eg; [|discriminate]. injection E as <- <-.
        now apply (proj2 (gen_names_ok lower_s HL _ _ _ _ Eg)).
      + destruct (check_patchnames _ _) eqn:Ec; [|discriminate]. cbn [negb] in E.
        destruct (walk_down _ _ _) as [cs|] eqn:Ew; [|discriminate]. injection E as <- <-.
        now apply check_patchnames_ok. }
  - clear Hplan. revert Epl.
    repeat match goal with
           | |- (if ?b then _ else _) = _ -> _ => destruct b
           | |- match ?x with _ => _ end = _ -> _ => destruct x
           end; intros Epl; first [discriminate | injection Epl as <-; exact Hw1].
  - specialize (Hplan commits pns eq_refl). clear Epl.
    destruct (negb (Nat.eqb (length commits) (length pns))); [exact Hw1|].
    apply transact_sat; [apply Qunc_mono|exact Hm|frame_auto|exact Hw1|].
    intros Hc T. apply uncommit_sat; [exact T|].
    intros m o Hin. right. apply in_rev in Hin. apply in_combine_l in Hin.
    rewrite <- Hk, (patch_commit_cur _ _ Hc).
    destruct (pm_get (s_patches (op_state op)) m) eqn:Eg; [|reflexivity]. exfalso.
    destruct Hs as [_ [_ [Hd _]]].
    assert (Hall : In m (all_of (op_state op))) by (apply Hd; congruence).
    destruct Hplan as [Hnd _]. apply NoDup_app_iff in Hnd as [_ [_ Hdis]]. exact (Hdis m Hin Hall).
Qed.

(* ---------------------------------------------------------------- undo / redo / reset *)

Notation np_extends := CommitProofs.np_extends.

Lemma np_refl : forall a, np_extends a a.
Proof. intros a. apply ReachBase.ext_by_refl. Qed.

Lemma np_trans : forall a b c, np_extends a b -> np_extends b c -> np_extends a c.
Proof. intros a b c. apply ReachBase.ext_by_trans. Qed.

(* a transaction whose closure leaves the store alone adds state and grouping commits only *)
Lemma transact_np : forall op o f msg,
  (forall t', f (begin_txn op o) = TOk t' \/ (exists h, f (begin_txn op o) = THalt t' h)
              \/ f (begin_txn op o) = TErr t' -> t_objs t' = w_objs (op_world op)) ->
  np_extends (w_objs (op_world op)) (w_objs (fst (transact op o f msg))).
Proof.
  intros op o f msg Hf. unfold transact. destruct (negb (op_initialized op)).
  - destruct (f (begin_txn op o)); apply np_refl.
  - destruct (f (begin_txn op o)) as [t|t h|t|] eqn:Er.
    + destruct (execute (op_world op) (TOk t) msg) as [w' x] eqn:E. cbn [fst].
      refine (CommitProofs.exec_body_np (op_world op) t None msg w' x _ E).
      rewrite (Hf t) by auto. apply np_refl.
    + destruct (execute (op_world op) (THalt t h) msg) as [w' x] eqn:E. cbn [fst].
      refine (CommitProofs.exec_body_np (op_world op) t (Some h) msg w' x _ E).
      rewrite (Hf t) by eauto. apply np_refl.
    + cbn [execute fst w_objs]. rewrite (Hf t) by auto. apply np_refl.
    + apply np_refl.
Qed.

Lemma reset_to_state_objs : forall s t t',
  reset_to_state s t = TOk t' \/ (exists h, reset_to_state s t = THalt t' h)
  \/ reset_to_state s t = TErr t' -> t_objs t' = t_objs t.
Proof.
  intros s t t' H. unfold reset_to_state in H.
  destruct (match s_applied s with [] => _ | _ => _ end) as [b|].
  - destruct H as [H|[[h H]|H]]; try discriminate. injection H as <-. reflexivity.
  - destruct H as [H|[[h H]|H]]; try discriminate. injection H as <-. reflexivity.
Qed.

Lemma run_undo_like_np : forall w steps hard msg,
  np_extends (w_objs w) (w_objs (fst (run_undo_like w steps hard msg))).
Proof.
  intros w steps hard msg. unfold run_undo_like.
  destruct (open_stack PRequire w) as [op0|] eqn:Eo; [|apply np_refl].
  apply CommitProofs.open_stack_np in Eo.
  destruct (log_extmods_first op0) as [op|] eqn:El; [|exact Eo].
  assert (Hl : np_extends (w_objs (op_world op0)) (w_objs (op_world op))).
  { unfold log_extmods_first in El. destruct (Nat.eqb _ _); [injection El as <-; apply np_refl|].
    destruct (log_external_mods _ _) as [[w' s']|] eqn:Em; [|discriminate]. injection El as <-.
    now apply CommitProofs.log_external_mods_np in Em. }
  eapply np_trans; [exact Eo|]. eapply np_trans; [exact Hl|]. apply transact_np.
  intros t' H. destruct (w_stack (op_world op)) as [so|].
  - destruct (find_undo_state _ _ _ _) as [st|].
    + now apply reset_to_state_objs in H.
    + destruct H as [H|[[h H]|H]]; try discriminate. now injection H as <-.
  - destruct H as [H|[[h H]|H]]; try discriminate. now injection H as <-.
Qed.

Lemma restore_np : forall lower_s w c,
  is_restore c = true -> in_scope c = true ->
  np_extends (w_objs w) (w_objs (fst (step lower_s w c))).
Proof.
  intros lower_s w c Hr Hs. destruct c; try discriminate; cbn [step].
  - unfold run_undo. destruct (n <? 1)%Z; [apply np_refl|apply run_undo_like_np].
  - unfold run_redo. destruct (n =? 0)%N; [apply np_refl|].
    destruct (isize_max <? n)%N; [apply np_refl|apply run_undo_like_np].
  - destruct ranges; [discriminate|]. unfold run_reset. destruct entry as [k|].
    + destruct (open_stack PRequire w) as [op|] eqn:Eo; [|apply np_refl].
      apply CommitProofs.open_stack_np in Eo.
      destruct (w_stack (op_world op)) as [so|]; [|exact Eo].
      destruct (nth_prev_state _ _ _ _) as [st|]; [|exact Eo].
      eapply np_trans; [exact Eo|]. apply transact_np. intros t' H.
      now apply reset_to_state_objs in H.
    + destruct hard; apply np_refl.
Qed.

Lemma restore_reuses_commits :
  forall lower_s, LowerOK lower_s ->
  forall w c w' x n o',
    Inv w -> is_restore c = true -> in_scope c = true -> step lower_s w c = (w', x) ->
    patch_commit w' n = Some o' -> o' < length (w_objs w).
Proof.
  intros lower_s HL w c w' x n o' Hi Hr Hs E Ep.
  pose proof (step_inv lower_s HL w c Hs Hi) as Hi'. pose proof (restore_np lower_s w c Hr Hs) as Hnp.
  rewrite E in Hi', Hnp. cbn [fst] in Hi', Hnp.
  apply CommitProofs.np_extends_no_new_plain in Hnp as [_ Hnn].
  destruct (inv_patch w' n o' Hi' Ep) as [Hpl _].
  destruct (Nat.lt_ge_cases o' (length (w_objs w))) as [Hlt|Hge]; [exact Hlt|].
  exfalso. exact (Hnn o' Hge Hpl).
Qed.

(* ---------------------------------------------------------------- refresh *)

(* stg refresh runs two transactions: the first adds the patch `refresh-temp` (identity (0, []))
   on top, the second folds its tree into the top patch and deletes it.  The second cannot fail
   once the first has succeeded, so the temporary patch is never left behind. *)

Lemma tree_eqb_refl : forall a, tree_eqb a a = true.
Proof. induction a as [|x a IH]; cbn; [reflexivity|]. now rewrite N.eqb_refl, IH. Qed.

Definition refresh_body (pn tmpname : name) (t : txn) : tres :=
  match t_patch t pn, t_patch t tmpname with
  | Some pc, Some tc =>
      let old := get (t_objs t) pc in
      let new_tree := tree_of (t_objs t) tc in
      let t1 :=
        if tree_eqb new_tree (tree_of (t_objs t) pc) then (t, None)
        else
          let '(objs', o) :=
            put (t_objs t)
                (plain (parents_of (t_objs t) pc) new_tree
                       (match old with Some c => c_meta c | None => 0%N end)
                       (subj_of (t_objs t) pc)) in
          (set_objs t objs', Some o) in
      let '(t2, _) := delete_patches (fun n => name_eqb n tmpname) (fst t1) in
      match snd t1 with
      | Some o => update_patch pn o t2
      | None => TOk t2
      end
  | _, _ => TPanic
  end.

(* the commit refresh creates for the patch [pc] *)
Definition refreshed (objs : store) (pc : oid) (tr : tree) : commit :=
  plain (parents_of objs pc) tr (match get objs pc with Some c => c_meta c | None => 0%N end)
        (subj_of objs pc).

Lemma refresh_body_same : forall pn tmpname t pc tc A,
  t_patch t pn = Some pc -> t_patch t tmpname = Some tc ->
  tree_eqb (tree_of (t_objs t) tc) (tree_of (t_objs t) pc) = true ->
  t_applied t = A ++ [tmpname] -> ~ In tmpname A -> ~ In tmpname (t_unapplied t) ->
  ~ In tmpname (t_hidden t) ->
  refresh_body pn tmpname t =
  TOk (set_updated (set_lists t A (t_unapplied t) (t_hidden t)) (up_set (t_updated t) tmpname None)).
Proof.
  intros pn tmpname t pc tc A Epn Etn Etr Ha HA HU HH. unfold refresh_body.
  rewrite Epn, Etn. cbv zeta. rewrite Etr. cbn [fst snd].
  now rewrite (delete_last t A tmpname Ha HA HU HH).
Qed.

Lemma refresh_body_new : forall pn tmpname t pc tc A,
  t_patch t pn = Some pc -> t_patch t tmpname = Some tc -> pn <> tmpname ->
  tree_eqb (tree_of (t_objs t) tc) (tree_of (t_objs t) pc) = false ->
  t_applied t = A ++ [tmpname] -> ~ In tmpname A -> ~ In tmpname (t_unapplied t) ->
  ~ In tmpname (t_hidden t) ->
  refresh_body pn tmpname t =
  TOk (set_updated
         (set_lists (set_objs t (t_objs t ++ [refreshed (t_objs t) pc (tree_of (t_objs t) tc)]))
                    A (t_unapplied t) (t_hidden t))
         (up_set (up_set (t_updated t) tmpname None) pn (Some (length (t_objs t))))).
Proof.
  intros pn tmpname t pc tc A Epn Etn Hne Etr Ha HA HU HH. unfold refresh_body.
  rewrite Epn, Etn. cbv zeta. rewrite Etr. unfold put. cbv beta iota. cbn [fst snd].
  fold (refreshed (t_objs t) pc (tree_of (t_objs t) tc)).
  set (t0 := set_objs t _).
  rewrite (delete_last t0 A tmpname Ha HA HU HH).
  unfold update_patch. rewrite t_patch_upd, up_get_set.
  apply name_eqb_neq in Hne. rewrite name_eqb_sym, Hne.
  change (match up_get (t_updated t0) pn with Some v => v | None => _ end) with (t_patch t pn).
  rewrite Epn. reflexivity.
Qed.

Lemma last_error_snoc : forall (l : list name) n, last_error l = Some n -> exists l', l = l' ++ [n].
Proof.
  intros l n H. unfold last_error in H. destruct (rev l) as [|x r] eqn:E; [discriminate|].
  injection H as ->. exists (rev r). rewrite <- (rev_involutive l), E. reflexivity.
Qed.

(* for the top patch the closure of refresh is [refresh_body] *)
Lemma after_name_last : forall pn l r, ~ In pn l -> after_name pn ((l ++ [pn]) ++ r) = r.
Proof.
  intros pn l r. induction l as [|x l IH]; intros Hn; cbn [app after_name].
  - now rewrite name_eqb_refl.
  - destruct (name_eqb_spec x pn) as [->|Hx]; [exfalso; apply Hn; now left|].
    apply IH. intros Hi. apply Hn. now right.
Qed.

Lemma set_tmp_same : forall t, t_tmp_id t = None -> t_tmp_content t = [] -> set_tmp t None [] = t.
Proof. intros [] H1 H2. cbn in *. subst. reflexivity. Qed.

Lemma delete_tmp_fields : forall f t,
  t_tmp_id (fst (delete_patches f t)) = t_tmp_id t
  /\ t_tmp_content (fst (delete_patches f t)) = t_tmp_content t.
Proof. intros f t. unfold delete_patches. destruct (split_at_first f (t_applied t)). split; reflexivity. Qed.

Lemma refresh_absorb_top : forall pn tmpname t l,
  t_applied t = (l ++ [pn]) ++ [tmpname] -> NoDup (t_applied t) ->
  t_tmp_id t = None -> t_tmp_content t = [] ->
  refresh_absorb pn tmpname t = refresh_body pn tmpname t.
Proof.
  intros pn tmpname t l Ha Hnd Hid Hct. unfold refresh_absorb, refresh_body.
  assert (Hm : mem pn (t_applied t) = true).
  { apply mem_In. rewrite Ha. apply in_or_app. left. apply in_or_app. right. now left. }
  assert (Hl : ~ In pn l).
  { rewrite Ha in Hnd. apply NoDup_app_iff in Hnd as [Hnd _]. apply NoDup_app_iff in Hnd as [_ [_ Hd]].
    intros Hi. apply (Hd pn Hi). now left. }
  rewrite Hm. cbv zeta. rewrite Ha, (after_name_last pn l [tmpname] Hl).
  cbn [length Nat.ltb Nat.leb tbind].
  destruct (t_patch t pn) as [pc|]; [|reflexivity].
  destruct (t_patch t tmpname) as [tc|]; [|reflexivity].
  unfold last_error. cbn [rev app hd_error removelast]. rewrite name_eqb_refl. cbn [negb].
  unfold refresh_commit.
  assert (Hfin : forall t0 : txn, t_tmp_id t0 = None -> t_tmp_content t0 = [] ->
            push_patches [] false t0 = TOk t0).
  { intros t0 H1 H2. unfold push_patches. cbn [push_list]. now rewrite set_tmp_same. }
  destruct (tree_eqb _ _); cbn [fst snd].
  - destruct (delete_tmp_fields (fun n => name_eqb n tmpname) t) as [D1 D2].
    destruct (delete_patches _ t) as [t3 inc]. cbn [fst tbind] in *. apply Hfin; congruence.
  - unfold put. cbv beta iota. cbn [fst snd].
    match goal with |- context [delete_patches ?f ?t0] =>
      destruct (delete_tmp_fields f t0) as [D1 D2]; destruct (delete_patches f t0) as [t3 inc] end.
    cbn [fst] in D1, D2. unfold update_patch. destruct (t_patch t3 pn); [|reflexivity].
    cbn [tbind]. apply Hfin.
    + rewrite t_tmp_id_set_updated, D1. exact Hid.
    + rewrite t_tmp_content_set_updated, D2. exact Hct.
Qed.

Definition refresh_opts (apc : bool) : topts := opts CDisallow apc false true true false.

Lemma refresh_exec_ok : forall apc w t so pn th,
  t_opts t = refresh_opts apc -> t_head t = None ->
  last_error (t_applied t) = Some pn -> t_patch t pn = Some th ->
  tree_eqb (t_cur_tree t) (tree_of (t_objs t) th) = true ->
  t_wt_unmerged t = false ->
  exec_consistent t = true ->
  s_head (t_stack t) = w_branch w -> s_top (t_stack t) = w_branch w ->
  w_stack w = Some so -> state_of (t_objs t) so <> None -> first_parent (t_objs t) so <> None ->
  snd (exec_body w t None MOp) = X0.
Proof.
  intros apc w t so pn th Ho Hh Hl Hp Htr Hum Hc Hsh Hst Hs Hso Hfp.
  apply (exec_body_succeeds w t MOp th (t_wt t) false so); auto.
  - unfold t_head_oid, t_top. rewrite Hh. unfold last_error in Hl. now rewrite Hl.
  - unfold exec_co. rewrite Ho. cbn [refresh_opts opts o_set_head o_use_iw o_allow_bad_head andb negb].
    unfold exec_w0. cbn [w_branch w_wt w_unmerged w_objs].
    rewrite Hst, Nat.eqb_refl. cbn [negb]. rewrite andb_false_r.
    unfold checkout at 1. rewrite Htr. cbn [o_discard_changes o_conflict_mode negb andb].
    now rewrite Hum.
Qed.

Lemma open_allow_ok : forall w so s,
  Inv w -> w_stack w = Some so -> state_of (w_objs w) so = Some s ->
  exists b, open_stack PAllow w = Some (mkOpened (ensure_patch_refs w s) s b true).
Proof.
  intros w so s Hi Hs Es. unfold open_stack. rewrite Hs, Es.
  destruct (stack_base (w_objs w) (w_branch w) s) as [b|] eqn:Eb; [eauto|]. exfalso.
  destruct Hi as [_ [Hst _]]. destruct (Hst so s Es) as [_ [_ [Hd [Hp _]]]].
  unfold stack_base in Eb. destruct (s_applied s) as [|n r] eqn:Ea; [discriminate|].
  destruct (pm_get (s_patches s) n) as [o|] eqn:Eg.
  - destruct (Hp n o Eg) as [_ [p Ep]]. unfold first_parent in Eb. rewrite Ep in Eb. discriminate.
  - apply (Hd n); [|exact Eg]. unfold all_of. rewrite Ea. now left.
Qed.

Lemma s_top_last : forall s A x o,
  s_applied s = A ++ [x] -> pm_get (s_patches s) x = Some o -> s_top s = o.
Proof. intros s A x o H H0. unfold s_top, last_error. now rewrite H, last_error_app, H0. Qed.

Lemma refresh_second : forall w2 so s2 A tmpname tmpc pn pc w' x,
  Inv w2 -> w_stack w2 = Some so -> state_of (w_objs w2) so = Some s2 ->
  first_parent (w_objs w2) so <> None ->
  w_branch w2 = tmpc -> w_unmerged w2 = false -> s_head s2 = tmpc ->
  s_applied s2 = A ++ [tmpname] -> last_error A = Some pn ->
  pm_get (s_patches s2) tmpname = Some tmpc -> pm_get (s_patches s2) pn = Some pc ->
  match open_stack PAllow w2 with
  | None => err2 w2
  | Some op2 => transact op2 (refresh_opts (w_apc (op_world op2))) (refresh_absorb pn tmpname) MOp
  end = (w', x) ->
  x = X0 /\ store_extends (w_objs w2) (w_objs w')
  /\ ((tree_eqb (tree_of (w_objs w2) tmpc) (tree_of (w_objs w2) pc) = true
       /\ forall n, patch_commit w' n = if name_eqb tmpname n then None else patch_commit w2 n)
      \/ (tree_eqb (tree_of (w_objs w2) tmpc) (tree_of (w_objs w2) pc) = false
          /\ get (w_objs w') (length (w_objs w2))
             = Some (refreshed (w_objs w2) pc (tree_of (w_objs w2) tmpc))
          /\ forall n, patch_commit w' n =
                       if name_eqb pn n then Some (length (w_objs w2))
                       else if name_eqb tmpname n then None else patch_commit w2 n)).
Proof.
  intros w2 so s2 A tmpname tmpc pn pc w' x Hi Hs Es Hfp Hbr Hum Hsh Ha Hl Htn Hpn E.
  destruct (open_allow_ok w2 so s2 Hi Hs Es) as [b Eo]. rewrite Eo in E.
  pose proof Hi as [_ [Hst _]]. destruct (Hst so s2 Es) as [[Hnd _] _].
  unfold all_of in Hnd. rewrite Ha in Hnd.
  apply NoDup_app_iff in Hnd as [Hnd1 [_ Hdis]]. pose proof Hnd1 as HndA1. apply NoDup_app_iff in Hnd1 as [_ [_ HdA]].
  assert (HA : ~ In tmpname A) by (intros Hin; apply (HdA tmpname Hin); now left).
  assert (HUH : ~ In tmpname (s_unapplied s2 ++ s_hidden s2)).
  { apply Hdis. apply in_or_app. right. now left. }
  assert (HU : ~ In tmpname (s_unapplied s2)) by (intros Hin; apply HUH; apply in_or_app; now left).
  assert (HH : ~ In tmpname (s_hidden s2)) by (intros Hin; apply HUH; apply in_or_app; now right).
  assert (HpA : In pn A) by (now apply last_error_In in Hl).
  assert (Hne : pn <> tmpname) by (intros ->; contradiction).
  assert (Hne' : name_eqb tmpname pn = false) by (apply name_eqb_neq; congruence).
  unfold transact in E. cbn [op_initialized negb] in E.
  set (op2 := mkOpened _ _ _ _) in E. set (t := begin_txn op2 (refresh_opts _)) in E.
  destruct (last_error_snoc _ _ Hl) as [l0 Hl0].
  rewrite (refresh_absorb_top pn tmpname t l0) in E;
    [|change (t_applied t) with (s_applied s2); now rewrite Ha, Hl0
     |change (t_applied t) with (s_applied s2); rewrite Ha; exact HndA1
     |reflexivity|reflexivity].
  assert (Hcur : cur_state (op_world op2) = Some s2).
  { unfold cur_state. cbn. now rewrite Hs. }
  assert (Hst_top : s_top s2 = tmpc) by (eapply s_top_last; eauto).
  destruct (tree_eqb (tree_of (w_objs w2) tmpc) (tree_of (w_objs w2) pc)) eqn:Etr.
  - rewrite (refresh_body_same pn tmpname t pc tmpc A Hpn Htn Etr Ha HA HU HH) in E.
    set (tf := set_updated _ _) in E. rewrite execute_eq in E.
    assert (Hx0 : snd (exec_body (op_world op2) tf None MOp) = X0).
    { apply (refresh_exec_ok (w_apc (op_world op2)) _ tf so pn pc); try reflexivity; try assumption.
      - unfold tf. rewrite t_patch_upd. cbn [t_updated t begin_txn up_set up_remove up_get].
        rewrite Hne'. exact Hpn.
      - unfold tf. cbn. rewrite Hbr. exact Etr.
      - unfold exec_consistent, tf. cbn. now rewrite Htn.
      - cbn. congruence.
      - cbn. congruence.
      - cbn. rewrite Es. discriminate. }
    rewrite E in Hx0. cbn [snd] in Hx0. subst x. split; [reflexivity|].
    destruct (exec_body_patches (op_world op2) tf None MOp s2 w' X0 Hcur eq_refl
                (store_extends_refl (w_objs w2)) E)
      as [Hx [[_ Hc]|[[_ Hp] _]]]; [congruence|]. split; [exact Hx|]. left. split; [reflexivity|].
    intros n. rewrite Hp. unfold tf. rewrite t_patch_upd.
    cbn [t_updated t begin_txn up_set up_remove up_get].
    destruct (name_eqb tmpname n); [reflexivity|].
    symmetry. apply (patch_commit_cur w2 s2). unfold cur_state. now rewrite Hs.
  - rewrite (refresh_body_new pn tmpname t pc tmpc A Hpn Htn Hne Etr Ha HA HU HH) in E.
    set (c := refreshed (t_objs t) pc (tree_of (t_objs t) tmpc)) in E.
    set (tf := set_updated _ _) in E. rewrite execute_eq in E.
    assert (Hobjs : t_objs tf = w_objs w2 ++ [c]) by reflexivity.
    assert (Hup : t_updated tf = [(pn, Some (length (w_objs w2))); (tmpname, None)]).
    { unfold tf. rewrite t_updated_set_updated. cbn [t_updated t begin_txn].
      unfold up_set. cbn [up_remove]. now rewrite Hne'. }
    assert (Hx0 : snd (exec_body (op_world op2) tf None MOp) = X0).
    { apply (refresh_exec_ok (w_apc (op_world op2)) _ tf so pn (length (w_objs w2))); try reflexivity; try assumption.
      - unfold t_patch. rewrite Hup. cbn [up_get]. now rewrite name_eqb_refl.
      - rewrite Hobjs. unfold tree_of at 1. rewrite get_put_new. cbn [c refreshed plain c_tree].
        change (t_cur_tree tf) with (tree_of (w_objs w2) (w_branch w2)). rewrite Hbr.
        apply tree_eqb_refl.
      - unfold exec_consistent. rewrite Hup. cbn [forallb fst snd].
        change (t_stack tf) with s2. rewrite Htn.
        replace (mem pn (t_all tf)) with true; [reflexivity|]. symmetry. apply mem_In.
        change (t_all tf) with (A ++ s_unapplied s2 ++ s_hidden s2). apply in_or_app. now left.
      - cbn. congruence.
      - cbn. congruence.
      - rewrite Hobjs. unfold c, refreshed. rewrite state_of_put_plain. rewrite Es. discriminate.
      - rewrite Hobjs. eapply NoPanicExec.first_parent_ext; [apply store_extends_put|exact Hfp]. }
    rewrite E in Hx0. cbn [snd] in Hx0. subst x. split; [reflexivity|].
    assert (Hxt : store_extends (w_objs (op_world op2)) (t_objs tf)).
    { rewrite Hobjs. apply store_extends_put. }
    destruct (exec_body_patches (op_world op2) tf None MOp s2 w' X0 Hcur eq_refl Hxt E)
      as [Hx [[_ Hc]|[[Hxp Hp] _]]]; [congruence|]. split; [exact Hx|]. right. split; [reflexivity|].
    split.
    + destruct Hxp as [e He]. rewrite He, Hobjs. apply get_app_l. apply get_put_new.
    + intros n. rewrite Hp. unfold t_patch. rewrite Hup. cbn [up_get].
      destruct (name_eqb pn n); [reflexivity|]. destruct (name_eqb tmpname n); [reflexivity|].
      change (t_stack tf) with s2.
      symmetry. apply (patch_commit_cur w2 s2). unfold cur_state. now rewrite Hs.
Qed.

Lemma refresh_first : forall op tmpname sj w2,
  op_ok op -> w_unmerged (op_world op) = false ->
  names_ok (tmpname :: all_of (op_state op)) ->
  transact (mkOpened (with_objs (op_world op)
                        (w_objs (op_world op)
                         ++ [plain [w_branch (op_world op)] (w_wt (op_world op)) 0%N sj]))
                     (op_state op) (op_base op) (op_initialized op))
           default_opts (new_applied tmpname (length (w_objs (op_world op)))) MOp = (w2, X0) ->
  exists so s2,
    Inv w2 /\ w_stack w2 = Some so /\ state_of (w_objs w2) so = Some s2
    /\ first_parent (w_objs w2) so <> None
    /\ w_branch w2 = length (w_objs (op_world op)) /\ w_unmerged w2 = false
    /\ s_head s2 = length (w_objs (op_world op))
    /\ s_applied s2 = s_applied (op_state op) ++ [tmpname]
    /\ (forall n, pm_get (s_patches s2) n =
                  if name_eqb tmpname n then Some (length (w_objs (op_world op)))
                  else pm_get (s_patches (op_state op)) n)
    /\ store_extends (w_objs (op_world op)
                      ++ [plain [w_branch (op_world op)] (w_wt (op_world op)) 0%N sj]) (w_objs w2)
    /\ op_initialized op = true.
Proof.
  intros op tmpname sj w2 Hok Hum Hnm Et.
  set (w1 := op_world op) in *. set (s := op_state op) in *.
  set (ctmp := plain [w_branch w1] (w_wt w1) 0%N sj) in *.
  set (op1 := mkOpened _ _ _ _) in Et.
  assert (Hi2 : Inv w2).
  { change w2 with (fst (w2, X0)). rewrite <- Et. pose proof Hok as [Hiw _].
    apply Inv_iff in Hiw as [_ [Hbr _]]. apply transact_inv.
    - apply op_ok_put; [exact Hok|]. intros p [<-|[]]. exact Hbr.
    - intros W. apply new_applied_wf; [exact W|exact Hnm|apply patch_commit_new].
    - frame_auto. }
  apply transact_X0 in Et as [t1 [Ef [Hini Eb]]]. apply new_applied_ok in Ef.
  apply exec_ok_shape in Eb as (th & w1' & st1 & wt' & um' & prev & objs' & so & _ & Hth & El & Eco & Hprev & Ec & Ew & _).
  apply exec_logged_fields in El as (L1 & L2 & L3 & L4 & L5 & L6 & L7 & L8).
  assert (Hth' : th = length (w_objs w1)).
  { rewrite Ef in Hth. unfold t_head_oid, t_top in Hth.
    rewrite t_head_set_updated, t_head_set_lists, t_applied_set_updated, t_applied_set_lists in Hth.
    cbn [t_head begin_txn] in Hth. rewrite last_error_app, t_patch_upd, up_get_set, name_eqb_refl in Hth.
    now injection Hth as <-. }
  assert (Hco : um' = false).
  { unfold exec_co in Eco. rewrite Ef in Eco.
    rewrite t_opts_set_updated, t_opts_set_lists in Eco. cbn [t_opts begin_txn default_opts o_set_head o_use_iw andb] in Eco.
    injection Eco as _ <-. rewrite L3, Ef. cbn. exact Hum. }
  pose proof (state_commit_state _ _ _ _ _ Ec) as [Hx2 Es2].
  apply NoPanicExec.state_commit_first_parent in Ec.
  exists so, (exec_state t1 th prev st1). subst w2. cbn [w_stack w_objs w_branch w_unmerged].
  split; [exact Hi2|]. split; [reflexivity|]. split; [exact Es2|]. split; [exact Ec|].
  split; [rewrite Ef; cbn; exact Hth'|]. split; [exact Hco|].
  split; [exact Hth'|]. split; [rewrite Ef; reflexivity|]. split; [|split; [|exact Hini]].
  - intros n. unfold exec_state. cbn [s_patches]. rewrite pm_get_apply, L7, Ef.
    rewrite t_updated_set_updated, up_get_set. cbn. destruct (name_eqb tmpname n); reflexivity.
  - eapply store_extends_trans; [|exact Hx2]. rewrite Ef in L8. exact L8.
Qed.

Lemma run_refresh_eq : forall w,
  run_refresh w None =
  match open_stack PAllow w with
  | None => err2 w
  | Some op =>
      let w1 := op_world op in
      let s := op_state op in
      if negb (head_top_ok op) then err2 w1
      else
        match last_error (s_applied s) with
        | None => err2 w1
        | Some pn =>
            if w_unmerged w1 then err2 w1
            else
              let '(objs1, tmpc) := put (w_objs w1) (plain [w_branch w1] (w_wt w1) 0%N (List.app s_refresh_of pn)) in
              let tmpname :=
                match uniquify s_refresh_temp [] (all_of s) with UOk n => n | UFuel => s_refresh_temp end in
              let op1 := mkOpened (with_objs w1 objs1) s (op_base op) (op_initialized op) in
              match transact op1 default_opts (new_applied tmpname tmpc) MOp with
              | (w2, X0) =>
                  match open_stack PAllow w2 with
                  | None => err2 w2
                  | Some op2 => transact op2 (refresh_opts (w_apc (op_world op2))) (refresh_absorb pn tmpname) MOp
                  end
              | other => other
              end
        end
  end.
Proof.
  intros w. unfold run_refresh. cbv beta iota.
  destruct (open_stack PAllow w) as [op|]; [|reflexivity]. cbv zeta.
  destruct (negb (head_top_ok op)); [reflexivity|].
  destruct (last_error (s_applied (op_state op))) as [pn|]; reflexivity.
Qed.

Lemma open_allow_init : forall w op,
  open_stack PAllow w = Some op -> op_initialized op = true ->
  cur_state w = Some (op_state op) /\ w_objs (op_world op) = w_objs w
  /\ w_wt (op_world op) = w_wt w.
Proof.
  intros w op H Hi. unfold open_stack in H. unfold cur_state.
  destruct (w_stack w) as [so|].
  - destruct (state_of (w_objs w) so) as [s|]; [|discriminate].
    destruct (stack_base _ _ s); [|discriminate]. injection H as <-. auto.
  - injection H as <-. discriminate.
Qed.

Lemma new_applied_no_halt : forall n o t t' h, new_applied n o t <> THalt t' h.
Proof.
  intros n o t t' h. unfold new_applied.
  destruct (first_parent (t_objs t) o); [|discriminate]. destruct (t_top t); [|discriminate].
  destruct (Nat.eqb _ _); discriminate.
Qed.

Lemma refresh_spec : forall w w' x,
  Inv w -> run_refresh w None = (w', x) ->
  store_extends (w_objs w) (w_objs w')
  /\ ((kept w w' /\ x <> X0)
      \/ exists s pn pc cpc,
           x = X0 /\ cur_state w = Some s /\ last_error (s_applied s) = Some pn
           /\ pm_get (s_patches s) pn = Some pc /\ get (w_objs w) pc = Some cpc
           /\ ((tree_eqb (w_wt w) (tree_of (w_objs w) pc) = true /\ kept w w')
               \/ (tree_eqb (w_wt w) (tree_of (w_objs w) pc) = false
                   /\ exists o c, get (w_objs w') o = Some c /\ c_meta c = c_meta cpc
                                  /\ c_subj c = c_subj cpc
                                  /\ forall n, patch_commit w' n =
                                               if name_eqb pn n then Some o else patch_commit w n))).
Proof.
  intros w w' x Hi E. rewrite run_refresh_eq in E.
  destruct (open_stack PAllow w) as [op|] eqn:Eo.
  2:{ injection E as <- <-. split; [apply store_extends_refl|]. left. split; [apply kept_refl|discriminate]. }
  destruct (open_patches _ _ _ Eo ltac:(discriminate)) as [Hx1 Hk1].
  pose proof (open_ok _ _ _ Hi Eo) as Hok. pose proof (open_op_mir _ _ _ Eo) as Hm.
  cbv zeta in E.
  assert (Hfail : (op_world op, X2) = (w', x) ->
            store_extends (w_objs w) (w_objs w') /\ ((kept w w' /\ x <> X0) \/
            exists s pn pc cpc,
           x = X0 /\ cur_state w = Some s /\ last_error (s_applied s) = Some pn
           /\ pm_get (s_patches s) pn = Some pc /\ get (w_objs w) pc = Some cpc
           /\ ((tree_eqb (w_wt w) (tree_of (w_objs w) pc) = true /\ kept w w')
               \/ (tree_eqb (w_wt w) (tree_of (w_objs w) pc) = false
                   /\ exists o c, get (w_objs w') o = Some c /\ c_meta c = c_meta cpc
                                  /\ c_subj c = c_subj cpc
                                  /\ forall n, patch_commit w' n =
                                               if name_eqb pn n then Some o else patch_commit w n)))).
  { intros Ey. injection Ey as <- <-. split; [exact Hx1|]. left. split; [exact Hk1|discriminate]. }
  destruct (negb (head_top_ok op)); [exact (Hfail E)|].
  destruct (last_error (s_applied (op_state op))) as [pn|] eqn:El; [|exact (Hfail E)].
  destruct (w_unmerged (op_world op)) eqn:Eu; [exact (Hfail E)|].
  unfold put in E. cbv beta iota zeta in E. clear Hfail.
  set (tmpname := match uniquify s_refresh_temp [] (all_of (op_state op)) with
                  | UOk n => n | UFuel => s_refresh_temp end) in *.
  pose proof Hok as [Hiw [Hs Hb]]. pose proof Hs as [Hn [_ [Hd [Hp _]]]].
  assert (Hnm : names_ok (tmpname :: all_of (op_state op))).
  { apply uniquify_names_ok; [exact Hn|exact refresh_temp_valid]. }
  match type of E with match ?tr with _ => _ end = _ => destruct tr as [w2 x2] eqn:Et end.
  assert (Hop1 : op_mir (mkOpened (with_objs (op_world op)
                   (w_objs (op_world op) ++ [plain [w_branch (op_world op)] (w_wt (op_world op)) 0%N (List.app s_refresh_of pn)]))
                   (op_state op) (op_base op) (op_initialized op))).
  { apply op_mir_with_objs; [exact Hm|apply store_extends_put]. }
  destruct (transact_patches _ _ _ _ _ _ Hop1 (frame_new_applied _ _ _) Et) as [Hx2 Hcase].
  cbn [op_world with_objs w_objs] in Hx2.
  assert (Hx12 : store_extends (w_objs w) (w_objs w2)).
  { eapply store_extends_trans; [exact Hx1|]. eapply store_extends_trans; [apply store_extends_put|exact Hx2]. }
  assert (Hkept : x2 <> X0 -> (w2, x2) = (w', x) ->
            store_extends (w_objs w) (w_objs w') /\ ((kept w w' /\ x <> X0) \/
            exists s pn pc cpc,
           x = X0 /\ cur_state w = Some s /\ last_error (s_applied s) = Some pn
           /\ pm_get (s_patches s) pn = Some pc /\ get (w_objs w) pc = Some cpc
           /\ ((tree_eqb (w_wt w) (tree_of (w_objs w) pc) = true /\ kept w w')
               \/ (tree_eqb (w_wt w) (tree_of (w_objs w) pc) = false
                   /\ exists o c, get (w_objs w') o = Some c /\ c_meta c = c_meta cpc
                                  /\ c_subj c = c_subj cpc
                                  /\ forall n, patch_commit w' n =
                                               if name_eqb pn n then Some o else patch_commit w n)))).
  { intros Hne Ey. injection Ey as <- <-. split; [exact Hx12|]. left. split; [|exact Hne].
    destruct Hcase as [[Hk2 _]|[t' [_ [[_ Hc]|[h [Hc _]]]]]].
    - eapply kept_trans; [exact Hk1|]. eapply kept_trans; [apply kept_put_plain|exact Hk2].
    - contradiction.
    - exfalso. revert Hc. apply new_applied_no_halt. }
  destruct x2; try (apply Hkept; [discriminate|exact E]). clear Hkept Hcase.
  destruct (refresh_first op tmpname (List.app s_refresh_of pn) w2 Hok Eu Hnm Et)
    as (so & s2 & Hi2 & Hs2 & Es2 & Hfp2 & Hbr2 & Hum2 & Hsh2 & Ha2 & Hpm2 & Hxo2 & Hini).
  destruct (open_allow_init w op Eo Hini) as [Hcw [Hobjs Hwt]].
  assert (HpnA : In pn (all_of (op_state op))).
  { unfold all_of. apply in_or_app. left. now apply last_error_In in El. }
  destruct (pm_get (s_patches (op_state op)) pn) as [pc|] eqn:Epc; [|now apply Hd in HpnA].
  destruct (Hp pn pc Epc) as [[cpc [Hcpc _]] _]. rewrite Hobjs in Hcpc.
  assert (Htmp : ~ In tmpname (all_of (op_state op))).
  { destruct Hnm as [Hnd _]. now inversion Hnd. }
  assert (Hne' : name_eqb tmpname pn = false).
  { apply name_eqb_neq. intros ->. contradiction. }
  assert (Htnone : pm_get (s_patches (op_state op)) tmpname = None).
  { destruct (pm_get (s_patches (op_state op)) tmpname) eqn:Eg; [|reflexivity].
    exfalso. apply Htmp. apply Hd. congruence. }
  assert (Hpm_tn : pm_get (s_patches s2) tmpname = Some (length (w_objs (op_world op)))).
  { now rewrite Hpm2, name_eqb_refl. }
  assert (Hpm_pn : pm_get (s_patches s2) pn = Some pc) by (now rewrite Hpm2, Hne').
  destruct (refresh_second w2 so s2 (s_applied (op_state op)) tmpname (length (w_objs (op_world op)))
              pn pc w' x Hi2 Hs2 Es2 Hfp2 Hbr2 Hum2 Hsh2 Ha2 El Hpm_tn Hpm_pn E)
    as [-> [Hx3 Hres]].
  split; [eapply store_extends_trans; eauto|]. right.
  exists (op_state op), pn, pc, cpc.
  split; [reflexivity|]. split; [exact Hcw|]. split; [exact El|]. split; [exact Epc|].
  split; [exact Hcpc|].
  (* trees *)
  assert (Ht1 : tree_of (w_objs w2) (length (w_objs (op_world op))) = w_wt w).
  { unfold tree_of. destruct Hxo2 as [e ->]. rewrite (get_app_l _ e _ _ (get_put_new _ _)).
    cbn. exact Hwt. }
  assert (Hg2 : get (w_objs w2) pc = Some cpc).
  { destruct Hx12 as [e ->]. now apply get_app_l. }
  assert (Ht2 : tree_of (w_objs w2) pc = tree_of (w_objs w) pc).
  { unfold tree_of. now rewrite Hg2, Hcpc. }
  rewrite Ht1, Ht2 in Hres.
  assert (Hpc2 : forall n, patch_commit w2 n = pm_get (s_patches s2) n).
  { apply patch_commit_cur. unfold cur_state. now rewrite Hs2. }
  assert (Hpcw : forall n, patch_commit w n = pm_get (s_patches (op_state op)) n).
  { now apply patch_commit_cur. }
  destruct Hres as [[Htr Hpat]|[Htr [Hget Hpat]]]; [left|right]; (split; [exact Htr|]).
  - intros n. rewrite Hpat, Hpc2, Hpm2, Hpcw.
    destruct (name_eqb_spec tmpname n) as [<-|Hnn]; [now rewrite Htnone|reflexivity].
  - eexists _, _. split; [exact Hget|]. unfold refreshed, subj_of. rewrite Hg2. cbn.
    split; [reflexivity|]. split; [reflexivity|].
    intros n. rewrite Hpat, Hpc2, Hpm2, Hpcw. destruct (name_eqb pn n); [reflexivity|].
    destruct (name_eqb_spec tmpname n) as [<-|Hnn]; [now rewrite Htnone|reflexivity].
Qed.

(* ---------------------------------------------------------------- new *)

Section New.
  Variable w : world.
  Variable meta : N.
  Variable msg : str.

  Definition Qnew : pred := fun objs n o' =>
    patch_commit w n = Some o' \/ (patch_commit w n = None /\ ident_of objs o' = Some (meta, msg)).

  Lemma Qnew_mono : Qmono Qnew.
  Proof.
    intros a b n o [e ->] [H|[H1 H2]]; [now left|right]. split; [exact H1|].
    unfold ident_of in *. destruct (get a o) as [c|] eqn:E; [|discriminate].
    now rewrite (get_app_l _ e _ _ E).
  Qed.

  Lemma run_new_sat : forall nm, Inv w -> wsat Qnew (fst (run_new w nm meta msg)).
  Proof.
    intros nm Hi. assert (Hw : wsat Qnew w) by (intros n o E; now left).
    unfold run_new. destruct (from_str nm) as [pn|]; [|exact Hw].
    destruct (open_stack PAuto w) as [op|] eqn:Eo; [|exact Hw].
    pose proof (open_sat _ _ _ _ Qnew_mono Eo ltac:(discriminate) Hw) as Hw1.
    destruct (open_patches _ _ _ Eo ltac:(discriminate)) as [_ Hk].
    pose proof (open_ok _ _ _ Hi Eo) as [_ [[_ [_ [Hd _]]] _]]. pose proof (open_op_mir _ _ _ Eo) as Hm.
    destruct (w_unmerged (op_world op)); [exact Hw1|].
    destruct (negb (head_top_ok op)); [exact Hw1|].
    destruct (stack_collides (op_state op) pn) eqn:Ec; [exact Hw1|].
    unfold put. cbv beta iota zeta.
    apply transact_sat.
    - exact Qnew_mono.
    - apply op_mir_with_objs; [exact Hm|apply store_extends_put].
    - frame_auto.
    - cbn [op_world]. now apply wsat_put_plain; [apply Qnew_mono|].
    - cbn [op_world op_state]. intros Hc T. rewrite cur_put_plain in Hc.
      apply new_applied_sat; [exact T|]. cbn [begin_txn t_objs op_world with_objs w_objs].
      right. split.
      + rewrite <- Hk, (patch_commit_cur _ _ Hc).
        destruct (pm_get (s_patches (op_state op)) pn) eqn:Eg; [|reflexivity]. exfalso.
        assert (Hin : In pn (all_of (op_state op))) by (apply Hd; congruence).
        pose proof (stack_collides_none _ _ Ec pn Hin) as Hcol. rewrite collides_refl in Hcol. discriminate.
      + unfold ident_of. rewrite get_put_new. reflexivity.
  Qed.
End New.

(* ---------------------------------------------------------------- rebase *)

Lemma log_extmods_first_sat : forall Q op0 op,
  Qmono Q -> op_mir op0 -> log_extmods_first op0 = Some op -> wsat Q (op_world op0) ->
  wsat Q (op_world op).
Proof.
  intros Q op0 op HQ [_ Hi] E Hw. unfold log_extmods_first in E.
  destruct (Nat.eqb _ _); [now injection E as <-|].
  unfold log_external_mods in E. destruct (w_stack (op_world op0)) as [so|] eqn:Es; [|discriminate].
  destruct (state_commit _ _ _) as [[objs' so']|] eqn:Ec; [|discriminate].
  injection E as <-. apply state_commit_state in Ec as [Hx Ec]. cbn [op_world].
  destruct Hi as [Hc|[Hn _]]; [|congruence].
  apply (wsat_kept Q (op_world op0)); [exact HQ|exact Hx| |exact Hw].
  eapply kept_cur; [exact Hc| |]; [unfold cur_state; cbn; exact Ec|reflexivity].
Qed.

Lemma run_rebase_sat : forall Q w tg, Qok Q -> wsat Q w -> wsat Q (fst (run_rebase w tg)).
Proof.
  intros Q w tg HQ Hw. unfold run_rebase.
  destruct (open_stack PRequire w) as [op|] eqn:Eo; [|exact Hw].
  pose proof (open_sat Q _ _ _ (q_mono Q HQ) Eo ltac:(discriminate) Hw) as Hw1.
  apply open_op_mir in Eo.
  destruct (resolve_gtarget (op_world op) tg) as [target|]; [|exact Hw1].
  destruct (Nat.eqb target (op_base op)); [exact Hw1|].
  destruct (negb (head_top_ok op)); [exact Hw1|].
  destruct (dirty (op_world op)); [exact Hw1|].
  match goal with |- context [transact ?o ?a ?f ?m] =>
    assert (Hm : wsat Q (fst (transact o a f m))); [|destruct (transact o a f m) as [w2 x]] end.
  { apply transact_sat; [exact (q_mono Q HQ)|exact Eo|cbn [frame]; apply fr_pop|exact Hw1|].
    intros _ T. cbn [rsat]. now apply pop_sat. }
  cbn [fst] in Hm. destruct x; try exact Hm.
  match goal with |- context [open_stack PRequire ?w3'] => set (w3 := w3') end.
  assert (Hw3 : wsat Q w3).
  { apply (wsat_kept Q w2); [exact (q_mono Q HQ)|apply store_extends_refl|intros n; reflexivity|exact Hm]. }
  destruct (open_stack PRequire w3) as [op3|] eqn:Eo3; [|exact Hw3].
  pose proof (open_sat Q _ _ _ (q_mono Q HQ) Eo3 ltac:(discriminate) Hw3) as Hw3'.
  apply open_op_mir in Eo3.
  destruct (log_extmods_first op3) as [op4|] eqn:El; [|exact Hw3'].
  pose proof (log_extmods_first_sat Q _ _ (q_mono Q HQ) Eo3 El Hw3') as Hw4.
  apply (log_extmods_first_op_mir _ _ Eo3) in El.
  destruct (negb (head_top_ok op4)); [exact Hw4|].
  apply transact_sat; [exact (q_mono Q HQ)|exact El|apply frame_push_patches|exact Hw4|].
  intros _ T. now apply push_patches_sat.
Qed.

(* ---------------------------------------------------------------- the theorems *)

Lemma ident_kept : forall a b o c,
  store_extends a b -> get a o = Some c -> ident_of b o = ident_of a o.
Proof.
  intros a b o c [e ->] H. unfold ident_of. now rewrite H, (get_app_l _ e _ _ H).
Qed.

Lemma step_Qid : forall lower_s w c,
  Inv w -> manip c = true -> is_rename c = false -> is_uncommit c = false ->
  wsat (Qid w) (fst (step lower_s w c)).
Proof.
  intros lower_s w c Hi Hm Hr Hu. pose proof (Qid_init w Hi) as Hw. pose proof (Qid_ok w) as HQ.
  destruct c; try discriminate; cbn [step].
  - apply open_only_sat; [apply Qid_mono|discriminate|exact Hw].
  - (* refresh *)
    destruct patch as [o|]; [discriminate|].
    destruct (run_refresh w None) as [w' x] eqn:E. cbn [fst].
    destruct (refresh_spec w w' x Hi E) as [Hx [[Hk _]|(s & pn & pc & cpc & _ & Hc & _ & Hpc & Hg & Hcase)]].
    + now apply (wsat_kept _ w); [apply Qid_mono| | |].
    + destruct Hcase as [[_ Hk]|[_ (o & c & Ho & Hme & Hsu & Hpat)]].
      * now apply (wsat_kept _ w); [apply Qid_mono| | |].
      * intros n o' En. rewrite Hpat in En. destruct (name_eqb_spec pn n) as [<-|Hn].
        -- injection En as <-. exists c, pc, cpc. rewrite (patch_commit_cur _ _ Hc). auto.
        -- apply (Qid_mono w (w_objs w)); [exact Hx|]. now apply Hw.
  - now apply run_push_sat.
  - now apply run_pop_sat.
  - now apply run_goto_sat.
  - now apply run_float_sat.
  - now apply run_sink_sat.
  - now apply run_delete_sat.
  - now apply run_hide_sat.
  - now apply run_unhide_sat.
  - now apply run_commit_sat.
  - now apply run_clean_sat.
  - now apply run_spill_sat.
  - apply run_log_clear_sat; [apply Qid_mono|exact Hw].
  - now apply run_rebase_sat.
  - apply open_only_sat; [apply Qid_mono|discriminate|exact Hw].
Qed.

Lemma manipulation_keeps_identity :
  forall lower_s, LowerOK lower_s ->
  forall w c w' x n o',
    Inv w -> manip c = true -> step lower_s w c = (w', x) -> patch_commit w' n = Some o' ->
    (exists a o, patch_commit w a = Some o
                 /\ ident_of (w_objs w') o' = ident_of (w_objs w) o
                 /\ (a = n \/ is_rename c = true))
    \/ (is_uncommit c = true /\ patch_commit w n = None /\ o' < length (w_objs w)).
Proof.
  intros lower_s HL w c w' x n o' Hi Hm E En.
  assert (Hid : Qid w (w_objs w') n o' ->
            exists a o, patch_commit w a = Some o
                 /\ ident_of (w_objs w') o' = ident_of (w_objs w) o
                 /\ (a = n \/ is_rename c = true)).
  { intros H. apply Qid_ident in H as [o [H1 H2]]. exists n, o. auto. }
  destruct (is_rename c) eqn:Er; [|destruct (is_uncommit c) eqn:Eu].
  - (* rename *)
    left. destruct c; try discriminate. cbn [step] in E.
    assert (Hw : wsat (Qren w) w) by (intros m p Ep; now exists m).
    pose proof (run_rename_sat w w old new Hw) as H. rewrite E in H. cbn [fst] in H.
    destruct (H n o' En) as [a Ha]. exists a, o'. split; [exact Ha|]. split; [|now right].
    destruct (inv_patch_get w a o' Hi Ha) as [c0 Hc0].
    apply (ident_kept _ _ _ c0); [|exact Hc0].
    pose proof (step_extends lower_s w (CRename old new)) as Hx. cbn [step] in Hx. now rewrite E in Hx.
  - (* uncommit *)
    destruct c; try discriminate. cbn [step] in E.
    pose proof (run_uncommit_sat lower_s HL w number names Hi) as H. rewrite E in H. cbn [fst] in H.
    destruct (H n o' En) as [Hq|Hnone]; [left; now apply Hid|]. right.
    split; [reflexivity|]. split; [exact Hnone|].
    pose proof (run_uncommit_inv lower_s HL w number names Hi) as Hi'. rewrite E in Hi'. cbn [fst] in Hi'.
    destruct (CommitProofs.uncommit_no_new_commit _ _ _ _ _ _ E) as [_ Hnn].
    destruct (inv_patch w' n o' Hi' En) as [Hpl _].
    destruct (Nat.lt_ge_cases o' (length (w_objs w))) as [Hlt|Hge]; [exact Hlt|].
    exfalso. exact (Hnn o' Hge Hpl).
  - left. apply Hid. pose proof (step_Qid lower_s w c Hi Hm Er Eu) as H. rewrite E in H. now apply H.
Qed.

Lemma rename_same_commit :
  forall lower_s, LowerOK lower_s ->
  forall w old new w' n o',
    Inv w -> step lower_s w (CRename old new) = (w', X0) -> patch_commit w' n = Some o' ->
    exists a, patch_commit w a = Some o'.
Proof.
  intros lower_s HL w old new w' n o' Hi E En. cbn [step] in E.
  assert (Hw : wsat (Qren w) w) by (intros m p Ep; now exists m).
  pose proof (run_rename_sat w w old new Hw) as H. rewrite E in H. exact (H n o' En).
Qed.

Lemma new_keeps_others :
  forall lower_s, LowerOK lower_s ->
  forall w nm meta msg w' x n o',
    Inv w -> step lower_s w (CNew nm meta msg) = (w', x) -> patch_commit w' n = Some o' ->
    patch_commit w n = Some o'
    \/ (patch_commit w n = None /\ ident_of (w_objs w') o' = Some (meta, msg)).
Proof.
  intros lower_s HL w nm meta msg w' x n o' Hi E En. cbn [step] in E.
  pose proof (run_new_sat w meta msg nm Hi) as H. rewrite E in H. exact (H n o' En).
Qed.

Lemma unchanged_refresh_no_commit :
  forall lower_s, LowerOK lower_s ->
  forall w w' s top otop,
    Inv w -> cur_state w = Some s -> last_error (s_applied s) = Some top ->
    pm_get (s_patches s) top = Some otop ->
    tree_eqb (w_wt w) (tree_of (w_objs w) otop) = true ->
    step lower_s w (CRefresh None) = (w', X0) ->
    forall n, patch_commit w' n = patch_commit w n.
Proof.
  intros lower_s HL w w' s top otop Hi Hc Hl Hp Htr E. cbn [step] in E.
  destruct (refresh_spec w w' X0 Hi E) as [_ [[_ Hne]|(s1 & pn & pc & cpc & _ & Hc1 & Hl1 & Hp1 & _ & Hcase)]];
    [congruence|].
  assert (s1 = s) by congruence. subst s1. assert (pn = top) by congruence. subst pn.
  assert (pc = otop) by congruence. subst pc.
  destruct Hcase as [[_ Hk]|[Hf _]]; [exact Hk|congruence].
Qed.

(* ---------------------------------------------------------------- edit *)

Section Edit.
  Variable w : world.
  Variable meta : N.
  Variable msg : str.

  (* the identity of [w] is kept, or the patch (which existed in [w]) carries the new one *)
  Definition Qedit : pred := fun objs n o' =>
    Qid w objs n o' \/ (patch_commit w n <> None /\ ident_of objs o' = Some (meta, msg)).

  Lemma ident_of_mono : forall a b o i, store_extends a b -> ident_of a o = Some i -> ident_of b o = Some i.
  Proof.
    intros a b o i [e ->] H. unfold ident_of in *. destruct (get a o) as [c|] eqn:E; [|discriminate].
    now rewrite (get_app_l _ e _ _ E).
  Qed.

  Lemma Qedit_mono : Qmono Qedit.
  Proof.
    intros a b n o He [H|[H1 H2]]; [left; now apply (Qid_mono w a b)|right].
    split; [exact H1|]. now apply (ident_of_mono a b).
  Qed.

  Lemma Qedit_ok : Qok Qedit.
  Proof.
    split; [exact Qedit_mono|].
    intros objs n o ps tr [H|[H1 H2]]; [left; now apply (q_recommit _ (Qid_ok w))|right].
    split; [exact H1|]. unfold ident_of in *. rewrite get_put_new. unfold subj_of.
    destruct (get objs o) as [c|]; [|discriminate]. exact H2.
  Qed.

  Lemma edit_body_sat : forall pn o t,
    tsat Qedit t -> Qedit (t_objs t) pn o ->
    rsat Qedit (let above := after_name pn (t_applied t) in
                let '(t1, extra) := pop_patches (fun n => mem n above) t in
                match extra with
                | _ :: _ => TPanic
                | [] => tbind (update_patch pn o t1) (push_patches above false)
                end).
  Proof.
    intros pn o t T Ho. cbv zeta.
    pose proof (pop_sat Qedit (fun n => mem n (after_name pn (t_applied t))) t T) as T1.
    pose proof (WfFrame.fr_pop (fun n => mem n (after_name pn (t_applied t))) t) as [_ [e He]].
    destruct (pop_patches _ t) as [t1 extra]. cbn [fst] in T1, He.
    destruct extra; [|exact I].
    apply rsat_tbind.
    - apply update_patch_sat; [exact T1|]. eapply Qedit_mono; [|exact Ho]. now exists e.
    - intros t2 T2. apply push_patches_sat; [exact Qedit_ok|exact T2].
  Qed.

  Lemma run_edit_sat : forall loc, Inv w -> wsat Qedit (fst (run_edit w loc meta msg)).
  Proof.
    intros loc Hi.
    assert (Hw : wsat Qedit w) by (intros n o E; left; now apply (Qid_init w Hi)).
    unfold run_edit.
    destruct (match loc with Some o => _ | None => _ end) as [loc_l|]; [|exact Hw].
    destruct (open_stack PAllow w) as [op|] eqn:Eo; [|exact Hw].
    pose proof (open_sat _ _ _ _ Qedit_mono Eo ltac:(discriminate) Hw) as Hw1.
    destruct (open_patches _ _ _ Eo ltac:(discriminate)) as [_ Hk].
    pose proof (open_op_mir _ _ _ Eo) as Hm.
    destruct (negb (head_top_ok op)); [exact Hw1|].
    match goal with |- wsat _ (fst (rres_bind _ ?r _)) =>
      destruct r as [pn| |]; cbn [rres_bind]; [|exact Hw1|exact Hw1] end.
    destruct (pm_get (s_patches (op_state op)) pn) as [pc|] eqn:Epc; [|exact Hw1].
    destruct (get (w_objs (op_world op)) pc) as [old|]; [|exact Hw1].
    destruct (_ && _); [exact Hw1|].
    unfold put. cbv beta iota zeta.
    apply transact_sat.
    - exact Qedit_mono.
    - apply op_mir_with_objs; [exact Hm|apply store_extends_put].
    - apply frame_edit_body.
    - cbn [op_world]. now apply wsat_put_plain; [apply Qedit_mono|].
    - cbn [op_world op_state]. intros Hc T. rewrite cur_put_plain in Hc.
      apply edit_body_sat; [exact T|]. cbn [begin_txn t_objs op_world with_objs w_objs].
      right. split.
      + rewrite <- Hk, (patch_commit_cur _ _ Hc), Epc. discriminate.
      + unfold ident_of. rewrite get_put_new. reflexivity.
  Qed.
End Edit.

Lemma edit_changes_only_named :
  forall lower_s, LowerOK lower_s ->
  forall w loc meta msg w' x n o',
    Inv w -> step lower_s w (CEdit loc meta msg) = (w', x) -> patch_commit w' n = Some o' ->
    exists o, patch_commit w n = Some o
      /\ (ident_of (w_objs w') o' = ident_of (w_objs w) o \/ ident_of (w_objs w') o' = Some (meta, msg)).
Proof.
  intros lower_s HL w loc meta msg w' x n o' Hi E En. cbn [step] in E.
  pose proof (run_edit_sat w meta msg loc Hi) as H. rewrite E in H. cbn [fst] in H.
  destruct (H n o' En) as [Hq|[Hn Hid]].
  - apply Qid_ident in Hq as [o [H1 H2]]. exists o. auto.
  - destruct (patch_commit w n) as [o|]; [|congruence]. exists o. auto.
Qed.

Lemma unchanged_edit_is_noop :
  forall lower_s w op meta msg pn pc,
    open_stack PAllow w = Some op -> head_top_ok op = true ->
    last_error (s_applied (op_state op)) = Some pn -> pm_get (s_patches (op_state op)) pn = Some pc ->
    ident_of (w_objs (op_world op)) pc = Some (meta, msg) ->
    step lower_s w (CEdit None meta msg) = (op_world op, X0).
Proof.
  intros lower_s w op meta msg pn pc Eo Hh Hl Hp Hid. cbn [step]. unfold run_edit.
  rewrite Eo. rewrite Hh. cbn [negb]. rewrite Hl. cbn [rres_bind]. rewrite Hp.
  unfold ident_of in Hid. destruct (get (w_objs (op_world op)) pc) as [old|]; [|discriminate].
  injection Hid as Hm Hs. rewrite Hm, Hs, N.eqb_refl.
  change (str_eqb msg msg) with (name_eqb msg msg). rewrite name_eqb_refl. reflexivity.
Qed.

(* ---------------------------------------------------------------- squash *)

Section Squash.
  Variable w : world.
  Variable meta : N.
  Variable msg : str.

  (* the identity of [w] is kept, or the commit carries the identity that was asked for *)
  Definition Qsq : pred := fun objs n o' =>
    Qid w objs n o' \/ ident_of objs o' = Some (meta, msg).

  Lemma Qsq_mono : Qmono Qsq.
  Proof.
    intros a b n o He [H|H]; [left; now apply (Qid_mono w a b)|right].
    now apply (ident_of_mono a b).
  Qed.

  Lemma Qsq_ok : Qok Qsq.
  Proof.
    split; [exact Qsq_mono|].
    intros objs n o ps tr [H|H]; [left; now apply (q_recommit _ (Qid_ok w))|right].
    unfold ident_of in *. rewrite get_put_new. unfold subj_of.
    destruct (get objs o) as [c|]; [|discriminate]. exact H.
  Qed.

  Lemma new_unapplied_sat : forall n o pos t,
    tsat Qsq t -> Qsq (t_objs t) n o -> rsat Qsq (new_unapplied n o pos t).
  Proof.
    intros n o pos t H Ho. unfold new_unapplied. destruct (Nat.ltb _ _); [exact I|]. cbn [rsat].
    intros m o' E. rewrite t_objs_set_updated, t_objs_set_lists.
    change (t_updated t)
      with (t_updated (set_lists t (t_applied t) (insert_at pos n (t_unapplied t)) (t_hidden t))) in E.
    rewrite t_patch_up_set in E.
    destruct (name_eqb_spec n m) as [<-|Hn]; [injection E as <-; exact Ho|now apply H].
  Qed.

  Lemma try_squash_sat : forall t ps t1 o,
    tsat Qsq t -> try_squash t ps meta msg = Some (t1, o) ->
    tsat Qsq t1 /\ forall n, Qsq (t_objs t1) n o.
  Proof.
    intros t ps t1 o T E. apply try_squash_spec in E as (b & bc & tr & _ & _ & -> & ->). split.
    - apply (tsat_sub Qsq t); [exact Qsq_ok| |intros n o E; exact E|exact T].
      rewrite t_objs_set_objs. apply store_extends_put.
    - intros n. right. rewrite t_objs_set_objs. unfold ident_of. rewrite get_put_new. reflexivity.
  Qed.

  Lemma squash_finish_sat : forall newn o to_push sp t,
    tsat Qsq t -> Qsq (t_objs t) newn o -> rsat Qsq (squash_finish newn o to_push sp t).
  Proof.
    intros newn o to_push sp t T Ho. unfold squash_finish. apply rsat_tbind.
    - now apply new_unapplied_sat.
    - intros t2 T2. apply push_patches_sat; [exact Qsq_ok|exact T2].
  Qed.

  Lemma squash_closure_sat : forall ps newn sp t,
    tsat Qsq t -> rsat Qsq (squash_closure ps newn meta msg sp t).
  Proof.
    intros ps newn sp t T. unfold squash_closure.
    destruct (try_squash t ps meta msg) as [[t1 o]|] eqn:Et.
    - destruct (try_squash_sat _ _ _ _ T Et) as [T1 Ho].
      pose proof (delete_sat Qsq (fun n => mem n ps) t1 T1) as T2.
      pose proof (delete_objs (fun n => mem n ps) t1) as Eo.
      destruct (delete_patches _ t1) as [t2 to_push]. cbn [fst] in T2, Eo.
      apply squash_finish_sat; [exact T2|]. rewrite Eo. apply Ho.
    - pose proof (pop_sat Qsq (fun n => mem n ps) t T) as T1.
      destruct (pop_patches _ t) as [t1 to_push]. cbn [fst] in T1.
      apply rsat_tbind; [apply push_patches_sat; [exact Qsq_ok|exact T1]|].
      intros t2 T2. cbv beta.
      destruct (try_squash t2 ps meta msg) as [[t3 o]|] eqn:Et2; [|exact I].
      destruct (try_squash_sat _ _ _ _ T2 Et2) as [T3 Ho].
      pose proof (delete_sat Qsq (fun n => mem n ps) t3 T3) as T4.
      pose proof (delete_objs (fun n => mem n ps) t3) as Eo.
      destruct (delete_patches _ t3) as [t4 extra]. cbn [fst] in T4, Eo.
      destruct extra; [|exact I].
      apply squash_finish_sat; [exact T4|]. rewrite Eo. apply Ho.
  Qed.

  Lemma run_squash_sat : forall r nm, Inv w -> wsat Qsq (fst (run_squash w r nm meta msg)).
  Proof.
    intros r nm Hi.
    assert (Hw : wsat Qsq w) by (intros n o E; left; now apply (Qid_init w Hi)).
    unfold run_squash.
    destruct (parse_ranges r) as [prs|]; [|exact Hw].
    destruct (from_str nm) as [newn|]; [|exact Hw].
    destruct (open_stack PAllow w) as [op|] eqn:Eo; [|exact Hw].
    pose proof (open_sat _ _ _ _ Qsq_mono Eo ltac:(discriminate) Hw) as Hw1.
    pose proof (open_op_mir _ _ _ Eo) as Hm.
    destruct (w_unmerged (op_world op)); [exact Hw1|].
    destruct (negb (head_top_ok op)); [exact Hw1|].
    match goal with |- wsat _ (fst (rres_bind _ ?r _)) =>
      destruct r as [ps| |]; cbn [rres_bind]; [|exact Hw1|exact Hw1] end.
    destruct (_ && _); [exact Hw1|].
    destruct (Nat.ltb _ _); [exact Hw1|].
    rewrite squash_exit_fst.
    apply transact_sat; [exact Qsq_mono|exact Hm|apply frame_squash_closure|exact Hw1|].
    intros _ T. now apply squash_closure_sat.
  Qed.
End Squash.

Lemma squash_identity :
  forall lower_s, LowerOK lower_s ->
  forall w ranges nm meta msg w' x n o',
    Inv w -> step lower_s w (CSquash ranges nm meta msg) = (w', x) -> patch_commit w' n = Some o' ->
    (exists a o, patch_commit w a = Some o /\ ident_of (w_objs w') o' = ident_of (w_objs w) o)
    \/ ident_of (w_objs w') o' = Some (meta, msg).
Proof.
  intros lower_s HL w ranges nm meta msg w' x n o' Hi E En. cbn [step] in E.
  pose proof (run_squash_sat w meta msg ranges nm Hi) as H. rewrite E in H. cbn [fst] in H.
  destruct (H n o' En) as [Hq|Hid]; [left|right; exact Hid].
  apply Qid_ident in Hq as [o [H1 H2]]. exists n, o. auto.
Qed.

(* ---------------------------------------------------------------- pick *)

(* the store of an opened world only adds state commits: following first parents from a plain
   commit of [a] never leaves [a] *)
Lemma ancestor_ext_plain : forall a e k x y,
  plain_closed a -> is_plain a x -> ancestor (a ++ e) x k = Some y -> is_plain a y.
Proof.
  intros a e. induction k as [|k IH]; intros x y Hc Hx H; cbn [ancestor] in H.
  - now injection H as <-.
  - destruct Hx as [c [Hg Hpl]].
    assert (Hfp : first_parent (a ++ e) x = first_parent a x).
    { unfold first_parent. now rewrite (parents_of_mono a e x c Hg). }
    rewrite Hfp in H. destruct (first_parent a x) as [p|] eqn:Ep; [|discriminate].
    apply (IH p y Hc); [|exact H]. eapply first_parent_plain; [exact Hc| |exact Ep]. exists c. auto.
Qed.

(* the source of a pick is a plain commit of the world before the command *)
Lemma pick_source_old : forall w op src o,
  Inv w -> open_stack PAuto w = Some op -> pick_source op src = Some o -> is_plain (w_objs w) o.
Proof.
  intros w op src o Hi Eo Hs. pose proof (open_ok _ _ _ Hi Eo) as Hok.
  pose proof (pick_source_plain op src o Hok Hs) as Hpl.
  destruct (ChainExec.open_stack_cases _ _ _ Eo)
    as [(so & s & _ & _ & _ & Hw & _)|[(objs' & so & _ & Hsc & Hw & Hst & Hb & _)|(_ & Hw & _)]].
  - rewrite Hw in Hpl. exact Hpl.
  - apply Inv_iff in Hi as [[Hcl _] [Hbr _]].
    apply state_commit_state in Hsc as [[e He] _].
    destruct src as [n|k|k]; cbn [pick_source] in Hs.
    + rewrite Hst in Hs. discriminate.
    + rewrite Hw, Hb in Hs. cbn [ensure_patch_refs w_objs] in Hs. rewrite He in Hs.
      eapply ancestor_ext_plain; [exact Hcl|exact Hbr|exact Hs].
    + rewrite Hw in Hs. cbn [ensure_patch_refs w_objs w_branch] in Hs. rewrite He in Hs.
      eapply ancestor_ext_plain; [exact Hcl|exact Hbr|exact Hs].
  - rewrite Hw in Hpl. exact Hpl.
Qed.

Lemma pick_source_get : forall w op src o c,
  Inv w -> open_stack PAuto w = Some op -> pick_source op src = Some o ->
  get (w_objs (op_world op)) o = Some c -> get (w_objs w) o = Some c.
Proof.
  intros w op src o c Hi Eo Hs Hg. destruct (pick_source_old w op src o Hi Eo Hs) as [c0 [Hg0 _]].
  destruct (open_patches _ _ _ Eo ltac:(discriminate)) as [[e He] _].
  rewrite He in Hg. rewrite (get_app_l _ e _ _ Hg0) in Hg. congruence.
Qed.

(* every patch keeps the identity it had in [w] or carries the identity of the picked commit *)
Lemma pick_txn_sat : forall w op c par pn na,
  Inv w -> open_stack PAuto w = Some op ->
  wsat (Qsq w (c_meta c) (c_subj c))
       (fst (transact (pick_op op c par) (pick_opts (w_apc (op_world op))) (pick_body pn (length (w_objs (op_world op))) na) MOp)).
Proof.
  intros w op c par pn na Hi Eo.
  pose proof (Qsq_mono w (c_meta c) (c_subj c)) as Hmono.
  assert (Hw : wsat (Qsq w (c_meta c) (c_subj c)) w) by (intros n o E; left; now apply (Qid_init w Hi)).
  pose proof (open_sat _ _ _ _ Hmono Eo ltac:(discriminate) Hw) as Hw1.
  pose proof (open_op_mir _ _ _ Eo) as Hm.
  unfold pick_op, pick_commit. apply transact_sat.
  - exact Hmono.
  - apply op_mir_with_objs; [exact Hm|apply store_extends_put].
  - apply frame_pick_body.
  - cbn [op_world]. now apply wsat_put_plain.
  - cbn [op_world op_state]. intros _ T. unfold pick_body. apply rsat_tbind.
    + apply new_unapplied_sat; [exact T|]. right.
      cbn [begin_txn t_objs op_world with_objs w_objs]. unfold ident_of. now rewrite get_put_new.
    + intros t2 T2. destruct na; [exact T2|]. apply push_patches_sat; [apply Qsq_ok|exact T2].
Qed.

Lemma pick_identity :
  forall lower_s, LowerOK lower_s ->
  forall w src nm na w' x n o',
    Inv w -> step lower_s w (CPick src nm na) = (w', x) -> patch_commit w' n = Some o' ->
    (exists a o, patch_commit w a = Some o /\ ident_of (w_objs w') o' = ident_of (w_objs w) o)
    \/ (exists op o, open_stack PAuto w = Some op /\ pick_source op src = Some o
                     /\ ident_of (w_objs w') o' = ident_of (w_objs w) o).
Proof.
  intros lower_s HL w src nm na w' x n o' Hi E En. cbn [step] in E.
  assert (Hkeep : wsat (Qid w) w' ->
            exists a o, patch_commit w a = Some o /\ ident_of (w_objs w') o' = ident_of (w_objs w) o).
  { intros Hq. apply (Hq n o') in En. apply Qid_ident in En as [o [H1 H2]]. exists n, o. auto. }
  pose proof (Qid_init w Hi) as Hw.
  revert E. destruct (run_pick_case lower_s w src nm na) as
    [_|_|op Eo|op given o Eo _ _ _ _|op given o pn0 Eo _ _ _ _ _|op given o pn0 pn c par Eo _ _ _ Es _ _ Eg _];
    intros E.
  - injection E as <- _. left. now apply Hkeep.
  - injection E as <- _. left. now apply Hkeep.
  - injection E as <- _. left. apply Hkeep.
    exact (open_sat _ _ _ _ (Qid_mono w) Eo ltac:(discriminate) Hw).
  - injection E as <- _. left. apply Hkeep.
    exact (open_sat _ _ _ _ (Qid_mono w) Eo ltac:(discriminate) Hw).
  - injection E as <- _. left. apply Hkeep.
    exact (open_sat _ _ _ _ (Qid_mono w) Eo ltac:(discriminate) Hw).
  - pose proof (pick_txn_sat w op c par pn na Hi Eo) as H. rewrite E in H. cbn [fst] in H.
    destruct (H n o' En) as [Hq|Hid].
    + left. apply Qid_ident in Hq as [o0 [H1 H2]]. exists n, o0. auto.
    + right. exists op, o. split; [exact Eo|]. split; [exact Es|].
      rewrite Hid. unfold ident_of. now rewrite (pick_source_get w op src o c Hi Eo Es Eg).
Qed.

(* a transaction that checks its head (set_head, use_iw, no allow_bad_head) only goes through
   when nothing is applied or the branch is at the top of the stack *)
Lemma exec_co_inl_head : forall t th w1 st1 r,
  o_set_head (t_opts t) = true -> o_use_iw (t_opts t) = true -> o_allow_bad_head (t_opts t) = false ->
  exec_co t th w1 st1 = inl r -> s_applied st1 = [] \/ s_top st1 = w_branch w1.
Proof.
  intros t th w1 st1 r H1 H2 H3 E. unfold exec_co in E. rewrite H1, H2, H3 in E. cbn [andb negb] in E.
  destruct (s_applied st1) as [|a l]; [now left|]. right. cbn [negb andb] in E.
  destruct (Nat.eqb (s_top st1) (w_branch w1)) eqn:En; [now apply Nat.eqb_eq in En|].
  cbn [negb] in E. discriminate.
Qed.

Lemma open_base_no_applied : forall p w op,
  open_stack p w = Some op -> s_applied (op_state op) = [] -> op_base op = w_branch w.
Proof.
  intros p w op Eo Ha.
  destruct (ChainExec.open_stack_cases _ _ _ Eo)
    as [(so & s & _ & _ & Hb & _ & Hst & _)|[(objs' & so & _ & _ & _ & _ & Hb & _)|(_ & _ & _ & Hb & _)]];
    [|exact Hb|exact Hb].
  rewrite Hst in Ha. unfold stack_base in Hb. rewrite Ha in Hb. now injection Hb as <-.
Qed.

Lemma pick_noapply_copies :
  forall lower_s, LowerOK lower_s ->
  forall w src nm w' op o s s',
    Inv w -> open_stack PAuto w = Some op -> pick_source op src = Some o ->
    step lower_s w (CPick src nm true) = (w', X0) ->
    cur_state (op_world op) = Some s -> cur_state w' = Some s' ->
    exists n o',
      s_unapplied s' = n :: s_unapplied s /\ s_applied s' = s_applied s /\ s_hidden s' = s_hidden s
      /\ pm_get (s_patches s) n = None /\ pm_get (s_patches s') n = Some o'
      /\ (forall m, m <> n -> pm_get (s_patches s') m = pm_get (s_patches s) m)
      /\ tree_of (w_objs w') o' = tree_of (w_objs w) o
      /\ first_parent (w_objs w') o' = first_parent (w_objs w) o
      /\ ident_of (w_objs w') o' = ident_of (w_objs w) o
      /\ w_branch w' = w_branch w.
Proof.
  intros lower_s HL w src nm w' op o s s' Hi Eo Es E Hcs Hcs'. cbn [step] in E.
  revert E. destruct (run_pick_case lower_s w src nm true) as
    [_|_|op1 Eo1|op1 given o1 Eo1 _ _ _ _|op1 given o1 pn0 Eo1 _ _ _ _ _
     |op1 given o1 pn0 pn c par Eo1 _ _ _ Es1 _ Eu Eget Epar];
    intros E; try discriminate E.
  rewrite Eo in Eo1. injection Eo1 as <-. rewrite Es in Es1. injection Es1 as <-.
  pose proof (open_ok _ _ _ Hi Eo) as Hok.
  pose proof (pick_source_get w op src o c Hi Eo Es Eget) as Hgw.
  destruct (ConflictProofs.open_stack_frame _ _ _ Eo) as [Hbw _].
  set (o' := length (w_objs (op_world op))) in *.
  apply transact_X0 in E as [t1 [Ef [Hini Eb]]].
  unfold pick_body, new_unapplied in Ef. cbn [Nat.ltb Nat.leb insert_at tbind] in Ef. injection Ef as Ef.
  cbn [pick_op op_initialized] in Hini.
  pose proof (open_cur _ _ _ Eo Hini) as Hcur. rewrite Hcs in Hcur. injection Hcur as ->.
  apply exec_ok_shape in Eb as (th & w1 & st1 & wt' & um' & prev & objs' & so & _ & Hth & El & Eco & Hprev & Ec & Ew & _).
  apply exec_logged_fields in El as (L1 & L2 & L3 & L4 & L5 & L6 & L7 & L8).
  pose proof (state_commit_state _ _ _ _ _ Ec) as [Hx2 Es2].
  assert (Hs' : s' = exec_state t1 th prev st1).
  { rewrite Ew in Hcs'. unfold cur_state in Hcs'. cbn [w_stack w_objs] in Hcs'. congruence. }
  assert (Hfresh : ~ In pn (all_of (op_state op))) by exact (uniquify_notin _ _ _ Eu).
  assert (Hget' : get (w_objs w') o' = Some (pick_commit c par)).
  { rewrite Ew. cbn [w_objs]. destruct Hx2 as [e2 ->]. apply get_app_l.
    destruct L8 as [e1 ->]. apply get_app_l. rewrite <- Ef. cbn. apply get_put_new. }
  assert (Hpat : forall m, pm_get (s_patches s') m =
                           if name_eqb pn m then Some o' else pm_get (s_patches (op_state op)) m).
  { intros m. rewrite Hs'. unfold exec_state. cbn [s_patches]. rewrite pm_get_apply, L7, <- Ef.
    cbn [t_updated set_updated t_stack set_lists begin_txn pick_op op_state]. rewrite up_get_set.
    now destruct (name_eqb pn m). }
  exists pn, o'.
  split; [rewrite Hs', <- Ef; reflexivity|]. split; [rewrite Hs', <- Ef; reflexivity|].
  split; [rewrite Hs', <- Ef; reflexivity|].
  split.
  { destruct Hok as [_ [[_ [_ [Hall _]]] _]].
    destruct (pm_get (s_patches (op_state op)) pn) eqn:Eg; [|reflexivity].
    exfalso. apply Hfresh. apply Hall. congruence. }
  split; [now rewrite Hpat, name_eqb_refl|].
  split.
  { intros m Hm. rewrite Hpat. replace (name_eqb pn m) with false; [reflexivity|].
    symmetry. apply name_eqb_neq. congruence. }
  split; [unfold tree_of; now rewrite Hget', Hgw|].
  split.
  { unfold first_parent, parents_of in *. rewrite Hget', Hgw. rewrite Eget in Epar. now rewrite Epar. }
  split; [unfold ident_of; now rewrite Hget', Hgw|].
  (* the branch *)
  rewrite Ew. cbn [w_branch]. rewrite <- Ef. cbn [t_opts set_updated set_lists begin_txn pick_opts opts o_set_head].
  assert (Hopts : t_opts t1 = pick_opts (w_apc (op_world op))) by (now rewrite <- Ef).
  assert (Happ : t_applied t1 = s_applied (op_state op)) by (now rewrite <- Ef).
  assert (Hb1 : w_branch w1 = w_branch w) by (rewrite L1; exact Hbw).
  unfold t_head_oid in Hth. replace (t_head t1) with (@None oid) in Hth by (now rewrite <- Ef).
  unfold t_top in Hth. rewrite Happ in Hth.
  destruct (hd_error (rev (s_applied (op_state op)))) as [n|] eqn:Ehd.
  - assert (Hn : In n (s_applied (op_state op))) by (apply in_rev; now apply hd_error_In in Ehd).
    assert (Hne : name_eqb pn n = false).
    { apply name_eqb_neq. intros ->. apply Hfresh. unfold all_of. apply in_or_app. now left. }
    assert (Htp : t_patch t1 n = pm_get (s_patches (op_state op)) n).
    { rewrite <- Ef. rewrite t_patch_upd. cbn [t_updated set_lists begin_txn]. rewrite up_get_set, Hne.
      reflexivity. }
    rewrite Htp in Hth.
    destruct (exec_co_inl_head t1 th w1 st1 _ ltac:(now rewrite Hopts) ltac:(now rewrite Hopts)
                ltac:(now rewrite Hopts) Eco) as [Hnil|Htop].
    + exfalso. rewrite L4 in Hnil. replace (t_stack t1) with (op_state op) in Hnil by (now rewrite <- Ef).
      rewrite Hnil in Hn. destruct Hn.
    + rewrite <- Hb1, <- Htop. unfold s_top, last_error. rewrite L4, L7.
      replace (t_stack t1) with (op_state op) by (now rewrite <- Ef). now rewrite Ehd, Hth.
  - injection Hth as <-. unfold t_base_oid. rewrite <- Ef. cbn.
    apply (open_base_no_applied _ _ _ Eo).
    destruct (s_applied (op_state op)) as [|a l] eqn:Ea; [reflexivity|].
    exfalso. assert (Hr : rev (a :: l) = []) by (destruct (rev (a :: l)); [reflexivity|discriminate]).
    apply (f_equal (@length name)) in Hr. rewrite rev_length in Hr. discriminate.
Qed.

(* Model/Cmd.v leaves N_scope open; the statements of Properties/C08.v compare object ids
   (nat) with the length of the store. *)
Global Open Scope nat_scope.
