(* C15 basics: digit runs, the integer parsers, decimal rendering round trips, and the
   characterisation [offs_ok] of offsets text that the offsets parser consumes completely. *)
From Coq Require Import Lia ZifyBool PeanoNat ZArith.
From StgV Require Import Model.Chars Model.Name Model.NameSpec Model.Locator Model.LocatorSpec.
From StgV Require Import Proofs.CharsProofs Proofs.ValidateProofs Proofs.UniquifyProofs.

Open Scope N_scope.

(* ---------------------------------------------------------------- generic list facts *)

Lemma firstn_app_exact : forall (a b : str), firstn (length (a ++ b) - length b) (a ++ b) = a.
Proof.
  intros a b. rewrite app_length.
  replace (length a + length b - length b)%nat with (length a) by lia.
  rewrite firstn_app, Nat.sub_diag, firstn_all. cbn [firstn]. apply app_nil_r.
Qed.

Lemma app_eq_tail_nil : forall (m w : str), m ++ w = w -> m = [].
Proof.
  intros m w H. apply (f_equal (@length N)) in H. rewrite app_length in H.
  destruct m; [reflexivity|cbn [length] in H; lia].
Qed.

(* ---------------------------------------------------------------- take_while / drop_while *)

Lemma take_while_drop_while : forall f s, s = take_while f s ++ drop_while f s.
Proof.
  intros f. induction s as [|c s IH]; [reflexivity|]. cbn [take_while drop_while].
  destruct (f c); [|reflexivity]. cbn [app]. now rewrite <- IH.
Qed.

Lemma take_while_all : forall f s, forallb f (take_while f s) = true.
Proof.
  intros f. induction s as [|c s IH]; [reflexivity|]. cbn [take_while].
  destruct (f c) eqn:E; [|reflexivity]. cbn [forallb]. now rewrite E, IH.
Qed.

Lemma drop_while_head : forall f s, head_fails f (drop_while f s).
Proof. intros f s. destruct (drop_while_spec f s) as [a [_ [_ H]]]. exact H. Qed.

Lemma take_drop_app : forall f d b,
  forallb f d = true -> head_fails f b ->
  take_while f (d ++ b) = d /\ drop_while f (d ++ b) = b.
Proof.
  intros f. induction d as [|c d IH]; intros b Hd Hb.
  - cbn [app]. destruct b as [|x b]; [auto|]. cbn in Hb. cbn [take_while drop_while].
    rewrite Hb. auto.
  - cbn [forallb] in Hd. apply andb_true_iff in Hd as [Hc Hd].
    destruct (IH b Hd Hb) as [H1 H2]. cbn [app take_while drop_while].
    rewrite Hc, H1, H2. auto.
Qed.

Lemma take_while_nil_head : forall f s, head_fails f s -> take_while f s = [].
Proof. intros f [|c s] H; [reflexivity|]. cbn in *. now rewrite H. Qed.

(* ---------------------------------------------------------------- unsigned_int *)

Definition digits (ds : str) : Prop := forallb is_ascii_digit ds = true.
Definition nodigit (r : str) : Prop := head_fails is_ascii_digit r.

Lemma unsigned_int_spec : forall s n r,
  unsigned_int s = Some (n, r) ->
  exists ds, s = ds ++ r /\ ds <> [] /\ digits ds /\ n = parse_dec ds
             /\ n <= isize_max /\ nodigit r.
Proof.
  intros s n r H. unfold unsigned_int in H.
  pose proof (take_while_drop_while is_ascii_digit s) as Hs.
  pose proof (take_while_all is_ascii_digit s) as Hall.
  destruct (take_while is_ascii_digit s) as [|d ds] eqn:Etw; [discriminate|].
  destruct (parse_dec (d :: ds) <=? isize_max) eqn:Ele; [|discriminate].
  injection H as Hn Hr. exists (d :: ds). subst r n.
  split; [exact Hs|]. split; [discriminate|]. split; [exact Hall|].
  split; [reflexivity|]. split; [now apply N.leb_le|]. apply drop_while_head.
Qed.

Lemma unsigned_int_intro : forall ds r,
  ds <> [] -> digits ds -> parse_dec ds <= isize_max -> nodigit r ->
  unsigned_int (ds ++ r) = Some (parse_dec ds, r).
Proof.
  intros ds r Hne Hd Hle Hr. unfold unsigned_int.
  destruct (take_drop_app is_ascii_digit ds r Hd Hr) as [H1 H2]. rewrite H1, H2.
  destruct ds as [|d ds']; [congruence|].
  apply N.leb_le in Hle. rewrite Hle. reflexivity.
Qed.

Lemma unsigned_int_none_nodigit : forall r, nodigit r -> unsigned_int r = None.
Proof. intros r Hr. unfold unsigned_int. now rewrite take_while_nil_head. Qed.

Lemma unsigned_int_dec : forall n r,
  n <= isize_max -> nodigit r -> unsigned_int (dec_of_N n ++ r) = Some (n, r).
Proof.
  intros n r Hn Hr. rewrite <- (parse_dec_dec n) at 2.
  apply unsigned_int_intro; [apply dec_of_N_nonempty|apply dec_of_N_all| |exact Hr].
  now rewrite parse_dec_dec.
Qed.

(* ---------------------------------------------------------------- negative / nonplussed *)

Lemma negative_int_spec : forall s z r,
  negative_int s = Some (z, r) ->
  exists ds, s = ch_dash :: ds ++ r /\ ds <> [] /\ digits ds
             /\ z = Z.opp (Z.of_N (parse_dec ds)) /\ parse_dec ds <= isize_max + 1
             /\ nodigit r.
Proof.
  intros s z r H. unfold negative_int in H. destruct s as [|c s']; [discriminate|].
  destruct (c =? ch_dash) eqn:Ec; [|discriminate]. apply N.eqb_eq in Ec. subst c.
  pose proof (take_while_drop_while is_ascii_digit s') as Hs.
  pose proof (take_while_all is_ascii_digit s') as Hall.
  destruct (take_while is_ascii_digit s') as [|d ds] eqn:Etw; [discriminate|].
  destruct (parse_dec (d :: ds) <=? isize_max + 1) eqn:Ele; [|discriminate].
  injection H as Hz Hr. exists (d :: ds). subst r z.
  split; [now rewrite Hs at 1|]. split; [discriminate|]. split; [exact Hall|].
  split; [reflexivity|]. split; [now apply N.leb_le|]. apply drop_while_head.
Qed.

Lemma negative_int_intro : forall ds r,
  ds <> [] -> digits ds -> parse_dec ds <= isize_max + 1 -> nodigit r ->
  negative_int (ch_dash :: ds ++ r) = Some (Z.opp (Z.of_N (parse_dec ds)), r).
Proof.
  intros ds r Hne Hd Hle Hr. unfold negative_int. rewrite N.eqb_refl.
  destruct (take_drop_app is_ascii_digit ds r Hd Hr) as [H1 H2]. rewrite H1, H2.
  destruct ds as [|d ds']; [congruence|].
  apply N.leb_le in Hle. rewrite Hle. reflexivity.
Qed.

Lemma negative_int_nodash : forall c s, c <> ch_dash -> negative_int (c :: s) = None.
Proof.
  intros c s Hc. unfold negative_int. apply N.eqb_neq in Hc. now rewrite Hc.
Qed.

Lemma dec_of_Z_of_N : forall n, dec_of_Z (Z.of_N n) = dec_of_N n.
Proof. intros [|p]; reflexivity. Qed.

Lemma digit_not_dash : forall c, is_ascii_digit c = true -> c <> ch_dash.
Proof. intros c. charlia. Qed.

Lemma dec_of_N_head : forall n, exists d t, dec_of_N n = d :: t /\ is_ascii_digit d = true.
Proof.
  intros n. pose proof (dec_of_N_nonempty n) as Hne. pose proof (dec_of_N_all n) as Hall.
  destruct (dec_of_N n) as [|d t]; [congruence|]. exists d, t. split; [reflexivity|].
  cbn [forallb] in Hall. now apply andb_true_iff in Hall as [Hd _].
Qed.

Lemma nonplussed_unsigned : forall n r,
  n <= isize_max -> nodigit r -> nonplussed_int (dec_of_N n ++ r) = Some (Z.of_N n, r).
Proof.
  intros n r Hn Hr. unfold nonplussed_int.
  pose proof (unsigned_int_dec n r Hn Hr) as Hu.
  destruct (dec_of_N_head n) as [d [t [Ed Hd]]]. rewrite Ed in *. cbn [app] in *.
  pose proof (digit_not_dash d Hd) as Hnd.
  rewrite (negative_int_nodash d (t ++ r) Hnd). apply N.eqb_neq in Hnd. rewrite Hnd, Hu.
  reflexivity.
Qed.

(* what nonplussed_int returns prints back to text that parses to the same value *)
Lemma nonplussed_roundtrip : forall s z r,
  nonplussed_int s = Some (z, r) -> nonplussed_int (dec_of_Z z ++ r) = Some (z, r).
Proof.
  intros s z r H. unfold nonplussed_int in H.
  destruct (negative_int s) as [[z' r']|] eqn:En.
  - injection H as Hz Hr. subst z' r'.
    apply negative_int_spec in En as [ds [_ [_ [_ [Hz [Hle Hr]]]]]].
    destruct (parse_dec ds) as [|p] eqn:Ep.
    + cbn in Hz. subst z. change (dec_of_Z 0%Z) with (dec_of_N 0).
      change 0%Z with (Z.of_N 0). apply nonplussed_unsigned; [unfold isize_max; lia|exact Hr].
    + subst z. cbn [Z.of_N Z.opp dec_of_Z]. unfold nonplussed_int.
      pose proof (negative_int_intro (dec_of_N (N.pos p)) r (dec_of_N_nonempty _)
                    (dec_of_N_all _)) as Hi.
      rewrite parse_dec_dec in Hi. cbn [app]. rewrite (Hi Hle Hr). reflexivity.
  - destruct s as [|c s']; [discriminate|]. destruct (c =? ch_dash); [discriminate|].
    destruct (unsigned_int (c :: s')) as [[n r']|] eqn:Eu; [|discriminate].
    injection H as Hz Hr. subst z r'.
    apply unsigned_int_spec in Eu as [ds [_ [_ [_ [_ [Hle Hr]]]]]].
    rewrite dec_of_Z_of_N. now apply nonplussed_unsigned.
Qed.

Lemma nonplussed_rest_suffix : forall s z r,
  nonplussed_int s = Some (z, r) -> exists a, s = a ++ r.
Proof.
  intros s z r H. unfold nonplussed_int in H.
  destruct (negative_int s) as [[z' r']|] eqn:En.
  - injection H as Hz Hr. subst z' r'.
    apply negative_int_spec in En as [ds [Hs _]]. exists (ch_dash :: ds). now rewrite Hs.
  - destruct s as [|c s']; [discriminate|]. destruct (c =? ch_dash); [discriminate|].
    destruct (unsigned_int (c :: s')) as [[n r']|] eqn:Eu; [|discriminate].
    injection H as Hz Hr. subst z r'.
    apply unsigned_int_spec in Eu as [ds [Hs _]]. now exists ds.
Qed.

(* ---------------------------------------------------------------- offsets *)

Definition is_sigil (c : N) : bool := (c =? ch_plus) || (c =? ch_tilde).

Inductive offs_ok : str -> Prop :=
| ok_nil : offs_ok []
| ok_atom : forall c ds r,
    is_sigil c = true -> digits ds -> (ds = [] \/ parse_dec ds <= isize_max) ->
    offs_ok r -> offs_ok (c :: ds ++ r).

Lemma sigil_nodigit : forall c, is_sigil c = true -> is_ascii_digit c = false.
Proof. intros c. unfold is_sigil. charlia. Qed.

Lemma offs_ok_nodigit : forall r, offs_ok r -> nodigit r.
Proof.
  intros r H. destruct H as [|c ds r Hc _ _ _]; [exact I|]. cbn. now apply sigil_nodigit.
Qed.

Lemma offs_ok_head : forall c r, offs_ok (c :: r) -> is_sigil c = true.
Proof. intros c r H. inversion H; subst. assumption. Qed.

Lemma offset_atom_spec : forall s a r,
  offset_atom s = Some (a, r) ->
  exists c ds, s = c :: ds ++ r /\ is_sigil c = true /\ digits ds
               /\ (ds = [] \/ parse_dec ds <= isize_max).
Proof.
  intros s a r H. unfold offset_atom in H. destruct s as [|c s']; [discriminate|].
  assert (Hgen : forall mk : option N -> atom,
             match unsigned_int s' with
             | Some (n, r0) => Some (mk (Some n), r0)
             | None => Some (mk None, s')
             end = Some (a, r) ->
             exists ds, s' = ds ++ r /\ digits ds /\ (ds = [] \/ parse_dec ds <= isize_max)).
  { intros mk Hm. destruct (unsigned_int s') as [[n r0]|] eqn:Eu.
    - injection Hm as _ Hr. subst r0.
      apply unsigned_int_spec in Eu as [ds [Hs [_ [Hd [Hn [Hle _]]]]]].
      exists ds. subst n. auto.
    - injection Hm as _ Hr. subst r. exists []. split; [reflexivity|]. split; [reflexivity|now left]. }
  destruct (c =? ch_plus) eqn:Ep.
  - destruct (Hgen _ H) as [ds [Hs [Hd Hle]]]. exists c, ds. subst s'.
    unfold is_sigil. rewrite Ep. auto.
  - destruct (c =? ch_tilde) eqn:Et; [|discriminate].
    destruct (Hgen _ H) as [ds [Hs [Hd Hle]]]. exists c, ds. subst s'.
    unfold is_sigil. rewrite Ep, Et. auto.
Qed.

Lemma offset_atom_intro : forall c ds r,
  is_sigil c = true -> digits ds -> (ds = [] \/ parse_dec ds <= isize_max) -> nodigit r ->
  exists a, offset_atom (c :: ds ++ r) = Some (a, r).
Proof.
  intros c ds r Hc Hd Hle Hr. unfold offset_atom.
  assert (Hu : (ds = [] /\ unsigned_int (ds ++ r) = None)
               \/ unsigned_int (ds ++ r) = Some (parse_dec ds, r)).
  { destruct ds as [|d ds'].
    - left. split; [reflexivity|]. now apply unsigned_int_none_nodigit.
    - right. apply unsigned_int_intro; auto; [discriminate|].
      destruct Hle as [Hle|Hle]; [discriminate|exact Hle]. }
  unfold is_sigil in Hc. destruct (c =? ch_plus) eqn:Ep.
  - destruct Hu as [[-> Hu]|Hu]; rewrite Hu; eauto.
  - cbn [orb] in Hc. rewrite Hc. destruct Hu as [[-> Hu]|Hu]; rewrite Hu; eauto.
Qed.

Lemma atoms_consumed : forall fuel s atoms rest,
  offset_atoms_fuel fuel s = (atoms, rest) ->
  exists cons, s = cons ++ rest /\ offs_ok cons.
Proof.
  induction fuel as [|fuel IH]; intros s atoms rest H; cbn [offset_atoms_fuel] in H.
  - injection H as _ Hr. subst rest. exists []. split; [reflexivity|constructor].
  - destruct (offset_atom s) as [[a r]|] eqn:Ea.
    + destruct (offset_atoms_fuel fuel r) as [l r'] eqn:Er.
      injection H as _ Hr. subst r'.
      destruct (IH _ _ _ Er) as [cons [Hs Hok]].
      apply offset_atom_spec in Ea as [c [ds [Hs' [Hc [Hd Hle]]]]].
      exists (c :: ds ++ cons). split.
      * rewrite Hs', Hs. cbn [app]. now rewrite app_assoc.
      * now constructor.
    + injection H as _ Hr. subst rest. exists []. split; [reflexivity|constructor].
Qed.

Lemma atoms_full : forall s,
  offs_ok s -> forall fuel, (length s <= fuel)%nat ->
  exists atoms, offset_atoms_fuel fuel s = (atoms, []).
Proof.
  intros s Hok. induction Hok as [|c ds r Hc Hd Hle Hr IH]; intros fuel Hf.
  - exists []. destruct fuel; reflexivity.
  - destruct fuel as [|fuel]; [cbn [length] in Hf; lia|].
    destruct (offset_atom_intro c ds r Hc Hd Hle (offs_ok_nodigit r Hr)) as [a Ha].
    cbn [offset_atoms_fuel]. rewrite Ha.
    destruct (IH fuel) as [l Hl].
    { cbn [length] in Hf. rewrite app_length in Hf. lia. }
    rewrite Hl. eauto.
Qed.

Lemma atoms_nil_rest : forall fuel s rest, offset_atoms_fuel fuel s = ([], rest) -> rest = s.
Proof.
  intros [|fuel] s rest H; cbn [offset_atoms_fuel] in H; [now injection H|].
  destruct (offset_atom s) as [[a r]|]; [|now injection H].
  destruct (offset_atoms_fuel fuel r). discriminate.
Qed.

Lemma patch_offsets_spec : forall s o rest,
  patch_offsets s = (o, rest) -> s = o ++ rest /\ offs_ok o.
Proof.
  intros s o rest H. unfold patch_offsets in H.
  destruct (offset_atoms s) as [atoms r] eqn:Ea. unfold offset_atoms in Ea.
  apply atoms_consumed in Ea as [cons [Hs Hok]]. injection H as Ho Hr. subst r.
  rewrite Hs, firstn_app_exact in Ho. subst o. auto.
Qed.

Lemma offs_ok_atoms : forall s, offs_ok s -> exists atoms, offset_atoms s = (atoms, []).
Proof. intros s H. unfold offset_atoms. now apply atoms_full. Qed.

Lemma offs_ok_atoms_nonempty : forall s,
  offs_ok s -> s <> [] -> exists a l, offset_atoms s = (a :: l, []).
Proof.
  intros s H Hne. destruct (offs_ok_atoms s H) as [[|a l] Ha]; [|eauto].
  unfold offset_atoms in Ha. apply atoms_nil_rest in Ha. congruence.
Qed.

Lemma offs_ok_patch_offsets : forall s, offs_ok s -> patch_offsets s = (s, []).
Proof.
  intros s H. unfold patch_offsets. destruct (offs_ok_atoms s H) as [atoms Ha]. rewrite Ha.
  cbn [length]. now rewrite Nat.sub_0_r, firstn_all.
Qed.

Lemma offsets_full_iff : forall s o, offsets_full s = Some o <-> o = s /\ offs_ok s.
Proof.
  intros s o. unfold offsets_full. split.
  - destruct (patch_offsets s) as [o' rest] eqn:Ep. destruct rest; [|discriminate].
    intros [= ->]. apply patch_offsets_spec in Ep as [Hs Hok]. rewrite app_nil_r in Hs.
    subst s. auto.
  - intros [-> Hok]. now rewrite offs_ok_patch_offsets.
Qed.

Lemma wf_loc_iff : forall l, wf_loc l <-> offs_ok (l_offs l) /\ l_id l <> IdName s_at.
Proof.
  intros l. unfold wf_loc. rewrite offsets_full_iff. tauto.
Qed.

Lemma offs_ok_app : forall a b, offs_ok a -> offs_ok b -> offs_ok (a ++ b).
Proof.
  intros a b Ha Hb. induction Ha as [|c ds r Hc Hd Hle Hr IH]; [exact Hb|].
  cbn [app]. rewrite <- app_assoc. now constructor.
Qed.

Lemma patch_offsets_nil : patch_offsets [] = ([], []).
Proof. reflexivity. Qed.
