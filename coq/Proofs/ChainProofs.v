(* C02 proofs: entry point.  The lemmas used by Properties/C02.v:

     init_chain, execute_head_or_untouched   Proofs/ChainExec.v
     conflict_on_top_partial                 Proofs/ChainTxn.v
     step_chain                              Proofs/ChainStep.v
     base_preserved                          Proofs/ChainBase.v

   Proofs/ChainBasics.v holds the generic lemmas (names, patch maps, the store, chains,
   state commits); Proofs/ChainTxn.v the transaction invariant [tinv] and its preservation
   by every transaction operation; Proofs/ChainExec.v execute / open_stack / transact. *)
From StgV Require Export Proofs.ChainBasics Proofs.ChainTxn Proofs.ChainExec Proofs.ChainStep
  Proofs.ChainBase.
