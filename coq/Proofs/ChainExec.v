(* C02 proofs, part 3: execute, open_stack, transact. *)
From Coq Require Import List Arith Bool Lia.
From StgV Require Import Model.StackSpec Proofs.CharsProofs Proofs.ChainBasics Proofs.ChainTxn.
Import ListNotations.
Local Open Scope nat_scope.

Definition world0 (w : world) (t : txn) : world :=
  mkWorld (t_objs t) (w_branch w) (w_stack w) (w_prefs w) (t_wt t) (t_wt_unmerged t) (w_base w) (w_apc w).

Definition logged_of (w : world) (t : txn) : option (world * sstate) :=
  if Nat.eqb (s_head (t_stack t)) (w_branch w) then Some (world0 w t, t_stack t)
  else log_external_mods (world0 w t) (t_stack t).

Definition new_state (t : txn) (st1 : sstate) (prev trans_head : oid) : sstate :=
  mkState (Some prev) trans_head (t_applied t) (t_unapplied t) (t_hidden t)
          (pm_apply (s_patches st1) (t_updated t)).

Lemma execute_spec : forall w r msg t w' x,
  (r = TOk t \/ exists h, r = THalt t h) ->
  execute w r msg = (w', x) ->
  (w' = w /\ x = XPanic)
  \/ (logged_of w t = None /\ w' = world0 w t /\ x = X2)
  \/ (exists w1 st1, logged_of w t = Some (w1, st1) /\
        ((exists wt um, w' = with_wt w1 wt um /\ (x = X2 \/ x = X3))
         \/ (w' = w1 /\ (x = X2 \/ x = XPanic))
         \/ (exists trans_head prev objs' so prefs' wt um,
               t_head_oid t = Some trans_head /\ w_stack w1 = Some prev /\
               state_commit (w_objs w1) (new_state t st1 prev trans_head) msg = Some (objs', so) /\
               w' = mkWorld objs' (if o_set_head (t_opts t) then trans_head else w_branch w1)
                            (Some so) prefs' wt um
                            (match t_base t with Some b => b | None => w_base w1 end) (w_apc w1) /\
               x = match r with THalt _ _ => X3 | _ => X0 end))).
Proof.
  intros w r msg t w' x Hr H.
  assert (Hb : execute w r msg =
    (let halted := match r with THalt _ h => Some h | _ => None end in
     if negb (forallb (fun p => match snd p with
                          | None => match pm_get (s_patches (t_stack t)) (fst p) with
                                    | Some _ => true | None => false end
                          | Some _ => mem (fst p) (t_all t)
                          end) (t_updated t)) then (w, XPanic)
     else match t_head_oid t with
        | None => (w, XPanic)
        | Some trans_head =>
            match logged_of w t with
            | None => (world0 w t, X2)
            | Some (w1, st1) =>
                let o := t_opts t in
                let trans_head_tree := tree_of (t_objs t) trans_head in
                let trans_top := hd_error (rev (t_applied t)) in
                let stack_top := hd_error (rev (s_applied (t_stack t))) in
                let co :=
                  if o_set_head o && o_use_iw o then
                    if negb (o_allow_bad_head o)
                       && negb (match s_applied st1 with [] => true | _ => false end)
                       && negb (Nat.eqb (s_top st1) (w_branch w1))
                    then inr (w_wt w1, w_unmerged w1, X2)
                    else
                      match checkout o stack_top trans_top (w_wt w1) (w_unmerged w1)
                                     (t_cur_tree t) trans_head_tree with
                      | Some (wt', um') => inl (wt', um')
                      | None =>
                          let rollback_tree := tree_of (w_objs w1) (w_branch w1) in
                          match checkout o stack_top trans_top (w_wt w1) (w_unmerged w1)
                                         (t_cur_tree t) rollback_tree with
                          | Some (wt', um') => inr (wt', um', X2)
                          | None =>
                              inr (w_wt w1, w_unmerged w1,
                                   if tree_eqb (t_cur_tree t) rollback_tree then X2 else X3)
                          end
                      end
                  else inl (w_wt w1, w_unmerged w1) in
                match co with
                | inr (wt', um', x) => (with_wt w1 wt' um', x)
                | inl (wt', um') =>
                    match w_stack w1 with
                    | None => (w1, X2)
                    | Some prev =>
                        match state_commit (w_objs w1) (new_state t st1 prev trans_head) msg with
                        | None => (w1, XPanic)
                        | Some (objs', so) =>
                            let prefs' :=
                              fold_right (fun p prefs =>
                                            match snd p with
                                            | Some o' => pm_set prefs (fst p) o'
                                            | None => pm_remove prefs (fst p)
                                            end) (w_prefs w1) (t_updated t) in
                            let branch' := if o_set_head o then trans_head else w_branch w1 in
                            let w2 := mkWorld objs' branch' (Some so) prefs' wt' um'
                                              (match t_base t with Some b => b | None => w_base w1 end) (w_apc w1) in
                            match halted with
                            | Some _ => (w2, X3)
                            | None => (w2, X0)
                            end
                        end
                    end
                end
            end
        end)).
  { destruct Hr as [-> | [h ->]]; reflexivity. }
  rewrite Hb in H. clear Hb. cbv zeta in H.
  destruct (negb (forallb _ (t_updated t))); [injection H as <- <-; now left|].
  destruct (t_head_oid t) as [trans_head|]; [|injection H as <- <-; now left].
  destruct (logged_of w t) as [[w1 st1]|]; [|injection H as <- <-; right; left; auto].
  right. right. exists w1, st1. split; [reflexivity|].
  match type of H with (match ?c with inl _ => _ | inr _ => _ end) = _ => destruct c as [[wt' um']|[[wt' um'] x']] eqn:Eco end.
  - destruct (w_stack w1) as [prev|]; [|injection H as <- <-; right; left; auto].
    destruct (state_commit _ _ _) as [[objs' so]|] eqn:Esc; [|injection H as <- <-; right; left; auto].
    right. right. exists trans_head, prev, objs', so. eexists. exists wt', um'.
    repeat split; try reflexivity; try exact Esc.
    + destruct Hr as [-> | [h ->]]; injection H as <- <-; reflexivity.
    + destruct Hr as [-> | [h ->]]; injection H as <- <-; reflexivity.
  - injection H as <- <-. left. exists wt', um'. split; [reflexivity|].
    destruct (o_set_head (t_opts t) && o_use_iw (t_opts t)); [|discriminate].
    destruct (negb (o_allow_bad_head (t_opts t)) && _ && _); [injection Eco as _ _ <-; now left|].
    destruct (checkout _ _ _ _ _ _ _) as [[? ?]|]; [discriminate|].
    destruct (checkout _ _ _ _ _ _ _) as [[? ?]|]; [injection Eco as _ _ <-; now left|].
    injection Eco as _ _ <-. destruct (tree_eqb _ _); auto.
Qed.

Lemma log_external_mods_spec : forall w s w1 st1,
  log_external_mods w s = Some (w1, st1) ->
  w_branch w1 = w_branch w /\ w_prefs w1 = w_prefs w /\ w_base w1 = w_base w
  /\ w_wt w1 = w_wt w /\ w_unmerged w1 = w_unmerged w
  /\ s_applied st1 = s_applied s /\ s_patches st1 = s_patches s /\ s_head st1 = w_branch w
  /\ store_extends (w_objs w) (w_objs w1)
  /\ (forall so s', state_of (w_objs w1) so = Some s' -> state_of (w_objs w) so = Some s' \/ s' = st1)
  /\ cur_state w1 = Some st1.
Proof.
  intros w s w1 st1 H. unfold log_external_mods in H.
  destruct (w_stack w) as [so|]; [|discriminate].
  destruct (state_commit _ _ _) as [[objs' so']|] eqn:Esc; [|discriminate].
  injection H as <- <-. cbn.
  repeat split.
  - eapply state_commit_extends; exact Esc.
  - intros so0 s' Hs. eapply state_commit_states; eassumption.
  - unfold cur_state. cbn. apply state_commit_spec in Esc as [_ Hs]. exact Hs.
Qed.

Lemma logged_of_spec : forall w t w1 st1,
  logged_of w t = Some (w1, st1) ->
  w_branch w1 = w_branch w /\ w_prefs w1 = w_prefs w /\ w_base w1 = w_base w
  /\ w_wt w1 = t_wt t /\ w_unmerged w1 = t_wt_unmerged t
  /\ s_applied st1 = s_applied (t_stack t) /\ s_patches st1 = s_patches (t_stack t)
  /\ s_head st1 = w_branch w
  /\ store_extends (t_objs t) (w_objs w1)
  /\ (forall so s', state_of (w_objs w1) so = Some s' -> state_of (t_objs t) so = Some s' \/ s' = st1)
  /\ ((w1 = world0 w t /\ st1 = t_stack t) \/ cur_state w1 = Some st1).
Proof.
  intros w t w1 st1 H. unfold logged_of in H.
  destruct (Nat.eqb (s_head (t_stack t)) (w_branch w)) eqn:E.
  - injection H as <- <-. apply Nat.eqb_eq in E. cbn. repeat split; try assumption.
    + apply store_extends_refl.
    + intros so s' Hs. now left.
    + now left.
  - apply log_external_mods_spec in H as (H1 & H2 & H3 & H4 & H5 & H6 & H7 & H8 & H9 & H10 & H11).
    cbn in *. repeat split; try assumption. now right.
Qed.

(* ---------------------------------------------------------------- the chain invariant *)

Definition SInv (objs : store) : Prop :=
  forall so s, state_of objs so = Some s -> chain_ok objs s.

Definition CInv (w : world) : Prop :=
  forall so s, state_of (w_objs w) so = Some s -> chain_ok (w_objs w) s.

Lemma SInv_transfer : forall objs objs' (P : sstate -> Prop),
  SInv objs -> store_extends objs objs' ->
  (forall so s, state_of objs' so = Some s -> state_of objs so = Some s \/ P s) ->
  (forall s, P s -> chain_ok objs' s) -> SInv objs'.
Proof.
  intros objs objs' P H He Hst HP so s Hs. destruct (Hst so s Hs) as [Ho|Hp].
  - apply (chain_ok_ext objs objs' s He). eapply H. exact Ho.
  - now apply HP.
Qed.

Lemma SInv_ns : forall objs objs', SInv objs -> ns_extends objs objs' -> SInv objs'.
Proof.
  intros objs objs' H He. apply (SInv_transfer objs objs' (fun _ => False) H (ns_store _ _ He)); [|tauto].
  intros so s Hs. left. eapply ns_state_of; eassumption.
Qed.

Lemma new_state_chain_ok : forall t st1 prev th objs',
  tfinal t -> s_patches st1 = s_patches (t_stack t) -> store_extends (t_objs t) objs' ->
  chain_ok objs' (new_state t st1 prev th).
Proof.
  intros t st1 prev th objs' [Hhas [base Hch]] Hp He.
  assert (Hpg : forall n, pm_get (s_patches (new_state t st1 prev th)) n = t_patch t n).
  { intros n. unfold new_state. cbn [s_patches]. rewrite pm_get_apply, Hp. reflexivity. }
  apply chain_ok_char.
  - intros n Hn. rewrite Hpg. now apply Hhas.
  - exists base. apply (chainl_ext (t_objs t) objs' _ _ He).
    unfold applied_oids, toids in *. cbn [new_state s_applied].
    erewrite map_ext; [exact Hch|]. intros n. unfold patch_oid, toid. now rewrite Hpg.
Qed.

Lemma execute_cinv : forall w r msg s0,
  CInv w -> rfinal (w_objs w) s0 r ->
  (forall n, In n (s_applied s0) -> pm_get (s_patches s0) n <> None) ->
  chain_ok (w_objs w) s0 ->
  CInv (fst (execute w r msg)).
Proof.
  intros w r msg s0 Hw Hr Hhas0 Hc0.
  assert (Hb : forall t, ns_extends (w_objs w) (t_objs t) -> SInv (t_objs t)).
  { intros t He. now apply (SInv_ns (w_objs w)). }
  assert (Hmain : forall t, (r = TOk t \/ exists h, r = THalt t h) ->
            tfinal t -> ns_extends (w_objs w) (t_objs t) -> t_stack t = s0 ->
            CInv (fst (execute w r msg))).
  { intros t Hrt Hf He Hs. destruct (execute w r msg) as [w' x] eqn:Eex. cbn [fst].
    pose proof (Hb t He) as Ht.
    apply (execute_spec w r msg t w' x Hrt) in Eex
      as [[-> _]|[[_ [-> _]]|[w1 [st1 [Hl Hcases]]]]]; [exact Hw|exact Ht|].
    apply logged_of_spec in Hl as (L1 & L2 & L3 & L4 & L5 & L6 & L7 & L8 & L9 & L10 & L11).
    assert (H1 : SInv (w_objs w1)).
    { apply (SInv_transfer (t_objs t) (w_objs w1) (fun s => s = st1) Ht L9 L10).
      intros s ->. apply (chain_ok_same (w_objs w1) (t_stack t) st1); try assumption.
      - rewrite Hs. exact Hhas0.
      - apply (chain_ok_ext (w_objs w) (w_objs w1)); [|now rewrite Hs].
        eapply store_extends_trans; [apply ns_store; exact He|exact L9]. }
    destruct Hcases as [[wt [um [-> _]]]|[[-> _]|Hfin]]; [exact H1|exact H1|].
    destruct Hfin as (th & prev & objs' & so & prefs' & wt & um & Hth & Hprev & Hsc & -> & _).
    unfold CInv. cbn [w_objs].
    apply (SInv_transfer (w_objs w1) objs' (fun s => s = new_state t st1 prev th) H1).
    - eapply state_commit_extends; exact Hsc.
    - intros so' s' Hs'. eapply state_commit_states; eassumption.
    - intros s ->. apply new_state_chain_ok; [exact Hf|exact L7|].
      eapply store_extends_trans; [exact L9|]. eapply state_commit_extends; exact Hsc. }
  destruct r as [t|t h|t|]; cbn [rfinal] in Hr.
  - destruct Hr as (Hf & He & Hs). apply (Hmain t); auto.
  - destruct Hr as (Hf & He & Hs). apply (Hmain t); eauto.
  - cbn. apply Hb. exact Hr.
  - cbn. exact Hw.
Qed.

Lemma init_chain : forall t, CInv (init_world t).
Proof.
  intros t so s H. unfold init_world, state_of, get in H. cbn in H.
  destruct so as [|so]; cbn in H; [discriminate|]. destruct so; discriminate.
Qed.

Lemma execute_head_or_untouched :
  forall w r msg w' x t,
    (r = TOk t \/ exists h, r = THalt t h) -> execute w r msg = (w', x) -> (x = X0 \/ x = X3) ->
    o_set_head (t_opts t) = true ->
    (exists s', cur_state w' = Some s' /\ w_branch w' = s_head s' /\ Some (s_head s') = t_head_oid t)
    \/ (x = X3 /\ w_branch w' = w_branch w /\ w_prefs w' = w_prefs w).
Proof.
  intros w r msg w' x t Hr Hex Hx Hsh.
  apply (execute_spec w r msg t w' x Hr) in Hex
    as [[_ Ex]|[[_ [_ Ex]]|[w1 [st1 [Hl Hcases]]]]];
    [subst x; destruct Hx; discriminate|subst x; destruct Hx; discriminate|].
  apply logged_of_spec in Hl as (L1 & L2 & _).
  destruct Hcases as [[wt [um [-> Hx']]]|[[-> Hx']|Hfin]].
  - right. destruct Hx' as [-> | ->]; [destruct Hx; discriminate|]. cbn. auto.
  - destruct Hx' as [->| ->]; destruct Hx; discriminate.
  - left. destruct Hfin as (th & prev & objs' & so & prefs' & wt & um & Hth & Hprev & Hsc & -> & _).
    rewrite Hsh. exists (new_state t st1 prev th). unfold cur_state. cbn.
    apply state_commit_spec in Hsc as [_ Hs]. rewrite Hs, Hth. auto.
Qed.

(* ---------------------------------------------------------------- what Inv provides *)

Definition sgood (objs : store) (s : sstate) : Prop :=
  NoDup (all_of s)
  /\ (forall n, In n (all_of s) -> pm_get (s_patches s) n <> None)
  /\ (forall n o, pm_get (s_patches s) n = Some o -> exists p, parents_of objs o = [p]).

Lemma sgood_of_inv : forall w so s, Inv w -> state_of (w_objs w) so = Some s -> sgood (w_objs w) s.
Proof.
  intros w so s (_ & Hwf & _) Hs. destruct (Hwf so s Hs) as ((Hnd & _) & Hk & Hiff & Hpc & _).
  repeat split; try assumption.
  - intros n Hn. now apply Hiff.
  - intros n o Hn. destruct (Hpc n o Hn) as [_ Hp]. exact Hp.
Qed.

Lemma inv_patches_nodup : forall w so s,
  Inv w -> state_of (w_objs w) so = Some s -> NoDup (map fst (s_patches s)).
Proof. intros w so s (_ & Hwf & _) Hs. now destruct (Hwf so s Hs) as (_ & Hk & _). Qed.

(* the recorded state (if any) is good: all that opening a stack needs *)
Definition cur_good (w : world) : Prop :=
  forall s, cur_state w = Some s -> sgood (w_objs w) s.

Lemma cur_good_of_inv : forall w, Inv w -> cur_good w.
Proof.
  intros w Hinv s Hs. unfold cur_state in Hs. destruct (w_stack w) as [so|]; [|discriminate].
  eapply sgood_of_inv; eassumption.
Qed.

Lemma sgood_empty : forall objs h, sgood objs (empty_state h).
Proof. intros objs h. repeat split; cbn; try constructor; try tauto. discriminate. Qed.

Lemma sgood_ext : forall a b s, store_extends a b -> sgood a s -> sgood b s.
Proof.
  intros a b s He (H1 & H3 & H4). repeat split; try assumption.
  intros n o Hn. destruct (H4 n o Hn) as [p Hp]. exists p. now apply (parents_of_ext a b).
Qed.

Lemma sgood_applied_nodup : forall objs s, sgood objs s -> NoDup (s_applied s).
Proof. intros objs s (H & _). unfold all_of in H. now apply nodup_app in H as [? _]. Qed.

Lemma sgood_applied_has : forall objs s n, sgood objs s -> In n (s_applied s) -> pm_get (s_patches s) n <> None.
Proof. intros objs s n (_ & H & _) Hn. apply H. unfold all_of. apply in_or_app. now left. Qed.

(* ---------------------------------------------------------------- opened stacks *)

Record opened_ok (op : opened) : Prop := mkOpenedOk {
  oo_cinv : CInv (op_world op);
  oo_good : sgood (w_objs (op_world op)) (op_state op);
  oo_chain : chain_ok (w_objs (op_world op)) (op_state op);
  oo_base : stack_base (w_objs (op_world op)) (w_branch (op_world op)) (op_state op) = Some (op_base op)
}.

Lemma open_stack_cases : forall p w op,
  open_stack p w = Some op ->
  (exists so s, w_stack w = Some so /\ state_of (w_objs w) so = Some s
      /\ stack_base (w_objs w) (w_branch w) s = Some (op_base op)
      /\ op_world op = ensure_patch_refs w s /\ op_state op = s /\ op_initialized op = true)
  \/ (exists objs' so, (p = PForce \/ w_stack w = None)
      /\ state_commit (w_objs w) (empty_state (w_branch w)) MOp = Some (objs', so)
      /\ op_world op = ensure_patch_refs
           (mkWorld objs' (w_branch w) (Some so) (w_prefs w) (w_wt w) (w_unmerged w) (w_base w) (w_apc w))
           (empty_state (w_branch w))
      /\ op_state op = empty_state (w_branch w) /\ op_base op = w_branch w
      /\ op_initialized op = true)
  \/ (w_stack w = None /\ op_world op = ensure_patch_refs w (empty_state (w_branch w))
      /\ op_state op = empty_state (w_branch w) /\ op_base op = w_branch w
      /\ op_initialized op = false).
Proof.
  intros p w op H. unfold open_stack in H.
  assert (Href : forall so,
    match state_of (w_objs w) so with
    | Some s => match stack_base (w_objs w) (w_branch w) s with
                | Some b => Some (mkOpened (ensure_patch_refs w s) s b true)
                | None => None end
    | None => None end = Some op -> w_stack w = Some so ->
    exists so s, w_stack w = Some so /\ state_of (w_objs w) so = Some s
      /\ stack_base (w_objs w) (w_branch w) s = Some (op_base op)
      /\ op_world op = ensure_patch_refs w s /\ op_state op = s /\ op_initialized op = true).
  { intros so E Hso. destruct (state_of (w_objs w) so) as [s|] eqn:Es; [|discriminate].
    destruct (stack_base (w_objs w) (w_branch w) s) as [b|] eqn:Eb; [|discriminate].
    injection E as <-. exists so, s. cbn. repeat split; auto. }
  assert (Hini : (p = PForce \/ w_stack w = None) ->
    match state_commit (w_objs w) (empty_state (w_branch w)) MOp with
    | Some (objs', so) =>
        Some (mkOpened (ensure_patch_refs
                 (mkWorld objs' (w_branch w) (Some so) (w_prefs w) (w_wt w) (w_unmerged w) (w_base w) (w_apc w))
                 (empty_state (w_branch w))) (empty_state (w_branch w)) (w_branch w) true)
    | None => None end = Some op ->
    exists objs' so, (p = PForce \/ w_stack w = None)
      /\ state_commit (w_objs w) (empty_state (w_branch w)) MOp = Some (objs', so)
      /\ op_world op = ensure_patch_refs
           (mkWorld objs' (w_branch w) (Some so) (w_prefs w) (w_wt w) (w_unmerged w) (w_base w) (w_apc w))
           (empty_state (w_branch w))
      /\ op_state op = empty_state (w_branch w) /\ op_base op = w_branch w
      /\ op_initialized op = true).
  { intros Hp E. destruct (state_commit _ _ _) as [[objs' so]|] eqn:Esc; [|discriminate].
    injection E as <-. exists objs', so. cbn. repeat split; auto. }
  destruct p, (w_stack w) as [so|] eqn:Ew; try discriminate;
    try (left; now apply (Href so)); try (right; left; apply Hini; [auto|exact H]).
  right. right. injection H as <-. cbn. repeat split; auto.
Qed.

Lemma open_stack_ok_gen : forall p w op,
  open_stack p w = Some op -> cur_good w -> CInv w ->
  opened_ok op /\ store_extends (w_objs w) (w_objs (op_world op))
  /\ w_branch (op_world op) = w_branch w.
Proof.
  intros p w op H Hinv Hc.
  destruct (open_stack_cases p w op H)
    as [(so & s & Hso & Hs & Hb & Hw & Hst & _)|[(objs' & so & _ & Hsc & Hw & Hst & Hb & _)|(_ & Hw & Hst & Hb & _)]].
  - rewrite Hw. cbn. split; [|split; [apply store_extends_refl|reflexivity]].
    constructor; rewrite Hw, ?Hst; cbn.
    + exact Hc.
    + apply Hinv. unfold cur_state. now rewrite Hso.
    + eapply Hc; eassumption.
    + exact Hb.
  - rewrite Hw. cbn. pose proof (state_commit_extends _ _ _ _ _ Hsc) as He.
    split; [|split; [exact He|reflexivity]].
    constructor; rewrite Hw, ?Hst, ?Hb; cbn.
    + unfold CInv. cbn. apply (SInv_transfer (w_objs w) objs' (fun s => s = empty_state (w_branch w)) Hc He).
      * intros so' s' Hs'. eapply state_commit_states; eassumption.
      * intros s ->. now apply chain_ok_nil.
    + apply sgood_empty.
    + now apply chain_ok_nil.
    + reflexivity.
  - rewrite Hw. cbn. split; [|split; [apply store_extends_refl|reflexivity]].
    constructor; rewrite Hw, ?Hst, ?Hb; cbn.
    + exact Hc.
    + apply sgood_empty.
    + now apply chain_ok_nil.
    + reflexivity.
Qed.

Lemma open_stack_ok : forall p w op,
  open_stack p w = Some op -> Inv w -> CInv w ->
  opened_ok op /\ store_extends (w_objs w) (w_objs (op_world op))
  /\ w_branch (op_world op) = w_branch w.
Proof. intros p w op H Hinv Hc. apply (open_stack_ok_gen p w op H); [now apply cur_good_of_inv|exact Hc]. Qed.

Definition K0 (op : opened) (o : topts) : kctx :=
  mkK (w_objs (op_world op)) (op_state op) (op_base op) None (o_set_head o).

Lemma begin_txn_inv : forall op o,
  opened_ok op -> tinv (K0 op o) (begin_txn op o) /\ t_head (begin_txn op o) = None.
Proof.
  intros op o [Hc Hg Hch Hb]. split; [|reflexivity].
  assert (Hpat : forall n, t_patch (begin_txn op o) n = pm_get (s_patches (op_state op)) n) by reflexivity.
  constructor; try reflexivity.
  - apply ns_extends_refl.
  - cbn. eapply sgood_applied_nodup; exact Hg.
  - intros n Hn. rewrite Hpat. eapply sgood_applied_has; [exact Hg|exact Hn].
  - intros n o' Hn. rewrite Hpat in Hn. destruct Hg as (_ & _ & Hs). cbn. eauto.
  - change (t_objs (begin_txn op o)) with (w_objs (op_world op)).
    change (t_base_oid (begin_txn op o)) with (op_base op).
    change (toids (begin_txn op o)) with (applied_oids (op_state op)).
    apply chain_ok_char in Hch; [|intros n Hn; eapply sgood_applied_has; [exact Hg|exact Hn]].
    destruct Hch as [base Hch]. unfold applied_oids in *. unfold stack_base in Hb.
    destruct (s_applied (op_state op)) as [|n l]; [exact I|].
    cbn in Hch |- *. destruct Hch as [Hp Hch]. split; [|exact Hch].
    unfold patch_oid in *. destruct (pm_get (s_patches (op_state op)) n) as [o'|]; [|discriminate].
    unfold first_parent in Hb. rewrite Hp in Hb. cbn in Hb. congruence.
  - now left.
Qed.

Lemma opened_ok_with_objs : forall op objs',
  opened_ok op -> ns_extends (w_objs (op_world op)) objs' ->
  opened_ok (mkOpened (with_objs (op_world op) objs') (op_state op) (op_base op) (op_initialized op)).
Proof.
  intros op objs' [Hc Hg Hch Hb] He. pose proof (ns_store _ _ He) as He'. constructor; cbn.
  - unfold CInv. cbn. now apply (SInv_ns (w_objs (op_world op))).
  - now apply (sgood_ext (w_objs (op_world op))).
  - now apply (chain_ok_ext (w_objs (op_world op))).
  - unfold stack_base in *. destruct (s_applied (op_state op)); [exact Hb|].
    destruct (pm_get _ _); [|exact Hb]. now apply (first_parent_ext (w_objs (op_world op))).
Qed.

Lemma transact_cinv : forall op o f msg,
  opened_ok op ->
  rfinal (w_objs (op_world op)) (op_state op) (f (begin_txn op o)) ->
  CInv (fst (transact op o f msg)).
Proof.
  intros op o f msg Hok Hr. unfold transact. destruct (negb (op_initialized op)).
  - destruct (f (begin_txn op o)); apply (oo_cinv op Hok).
  - apply (execute_cinv _ _ _ (op_state op)); [apply (oo_cinv op Hok)|exact Hr| |apply (oo_chain op Hok)].
    intros n Hn. eapply sgood_applied_has; [apply (oo_good op Hok)|exact Hn].
Qed.

(* the usual shape: the closure preserves the transaction invariant *)
Lemma transact_cinv_inv : forall op o f msg P,
  opened_ok op ->
  (forall t0, tinv (K0 op o) t0 -> t_head t0 = None -> t0 = begin_txn op o -> rinvP (K0 op o) P (f t0)) ->
  CInv (fst (transact op o f msg)).
Proof.
  intros op o f msg P Hok Hf. apply transact_cinv; [exact Hok|].
  destruct (begin_txn_inv op o Hok) as [H0 Hh0].
  apply (rinvP_final (K0 op o) P). now apply Hf.
Qed.

(* ---------------------------------------------------------------- a successful execute *)

Lemma execute_ok_state : forall w t msg w2,
  execute w (TOk t) msg = (w2, X0) ->
  exists st1 prev th,
    s_patches st1 = s_patches (t_stack t) /\ t_head_oid t = Some th
    /\ cur_state w2 = Some (new_state t st1 prev th)
    /\ store_extends (t_objs t) (w_objs w2)
    /\ w_branch w2 = (if o_set_head (t_opts t) then th else w_branch w).
Proof.
  intros w t msg w2 H.
  apply (execute_spec w (TOk t) msg t w2 X0 (or_introl eq_refl)) in H
    as [[_ Ex]|[[_ [_ Ex]]|[w1 [st1 [Hl Hcases]]]]]; try discriminate.
  apply logged_of_spec in Hl as (L1 & L2 & L3 & L4 & L5 & L6 & L7 & L8 & L9 & L10 & L11).
  destruct Hcases as [[wt [um [_ [Hx|Hx]]]]|[[_ [Hx|Hx]]|Hfin]]; try discriminate.
  destruct Hfin as (th & prev & objs' & so & prefs' & wt & um & Hth & Hprev & Hsc & -> & _).
  exists st1, prev, th. repeat split; try assumption.
  - unfold cur_state. cbn. now apply state_commit_spec in Hsc as [_ Hs].
  - cbn. eapply store_extends_trans; [exact L9|]. eapply state_commit_extends; exact Hsc.
  - cbn. now rewrite L1.
Qed.
