(* Proofs for C05: undo / redo / reset navigate the recorded history exactly. *)
From Coq Require Import List ZArith Bool Lia.
From StgV Require Import Model.Log Model.LogSpec Proofs.CharsProofs.
Import ListNotations.

(* ------------------------------------------------------------------ list helpers *)

Lemma nth_error_skipn_add :
  forall (A : Type) (n : nat) (l : list A) (k : nat),
    nth_error (skipn n l) k = nth_error l (n + k).
Proof.
  intros A n. induction n as [|n IHn]; intros l k.
  - reflexivity.
  - destruct l as [|x l].
    + cbn [skipn]. destruct k; reflexivity.
    + cbn [skipn plus nth_error]. apply IHn.
Qed.

Lemma nth_error_nil_none : forall (A : Type) (k : nat), nth_error (@nil A) k = None.
Proof. intros A k. destruct k; reflexivity. Qed.

Lemma hd_error_nth_error : forall (A : Type) (l : list A), hd_error l = nth_error l 0.
Proof. intros A l. destruct l; reflexivity. Qed.

Lemma skipn_skipn_add :
  forall (A : Type) (a b : nat) (l : list A), skipn a (skipn b l) = skipn (b + a) l.
Proof.
  intros A a b. induction b as [|b IHb]; intros l.
  - reflexivity.
  - destruct l as [|x l].
    + cbn [skipn plus]. destruct a; reflexivity.
    + cbn [skipn plus]. apply IHb.
Qed.

(* ------------------------------------------------------------------ walk: unfolding *)

Section LogFacts.
  Variable T : Type.

  Lemma walk_nil : forall k, walk T [] k = None.
  Proof. reflexivity. Qed.

  Lemma walk_zero : forall e rest, walk T (e :: rest) 0 = Some (state_of_entry T e).
  Proof. reflexivity. Qed.

  Lemma walk_pos_op :
    forall s rest k, (0 < k)%Z -> walk T (EOp s :: rest) k = walk T rest (k - 1)%Z.
  Proof.
    intros s rest k Hk. cbn [walk].
    destruct (k =? 0)%Z eqn:E0; [apply Z.eqb_eq in E0; lia|].
    destruct (0 <? k)%Z eqn:E1; [reflexivity|apply Z.ltb_ge in E1; lia].
  Qed.

  Lemma walk_pos_redo :
    forall n s rest k, (0 < k)%Z -> walk T (ERedo n s :: rest) k = walk T rest (k - 1)%Z.
  Proof.
    intros n s rest k Hk. cbn [walk].
    destruct (k =? 0)%Z eqn:E0; [apply Z.eqb_eq in E0; lia|].
    destruct (0 <? k)%Z eqn:E1; [reflexivity|apply Z.ltb_ge in E1; lia].
  Qed.

  Lemma walk_pos_undo :
    forall n s rest k, (0 < k)%Z -> walk T (EUndo n s :: rest) k = walk T rest (k + n)%Z.
  Proof.
    intros n s rest k Hk. cbn [walk].
    destruct (k =? 0)%Z eqn:E0; [apply Z.eqb_eq in E0; lia|].
    destruct (0 <? k)%Z eqn:E1; [reflexivity|apply Z.ltb_ge in E1; lia].
  Qed.

  Lemma walk_neg_op : forall s rest k, (k < 0)%Z -> walk T (EOp s :: rest) k = None.
  Proof.
    intros s rest k Hk. cbn [walk].
    destruct (k =? 0)%Z eqn:E0; [apply Z.eqb_eq in E0; lia|].
    destruct (0 <? k)%Z eqn:E1; [apply Z.ltb_lt in E1; lia|reflexivity].
  Qed.

  Lemma walk_neg_undo :
    forall n s rest k, (k < 0)%Z -> walk T (EUndo n s :: rest) k = walk T rest (k + 1)%Z.
  Proof.
    intros n s rest k Hk. cbn [walk].
    destruct (k =? 0)%Z eqn:E0; [apply Z.eqb_eq in E0; lia|].
    destruct (0 <? k)%Z eqn:E1; [apply Z.ltb_lt in E1; lia|reflexivity].
  Qed.

  Lemma walk_neg_redo :
    forall n s rest k, (k < 0)%Z -> walk T (ERedo n s :: rest) k = walk T rest (k - n)%Z.
  Proof.
    intros n s rest k Hk. cbn [walk].
    destruct (k =? 0)%Z eqn:E0; [apply Z.eqb_eq in E0; lia|].
    destruct (0 <? k)%Z eqn:E1; [apply Z.ltb_lt in E1; lia|reflexivity].
  Qed.

  (* ---------------------------------------------------------------- undo *)

  (* the generalised statement: also k = 0 *)
  Lemma walk_eff :
    forall (l : list (entry T)) k,
      wf_log T l -> (0 <= k)%Z -> walk T l k = nth_error (eff T l) (Z.to_nat k).
  Proof.
    induction l as [|e rest IH]; intros k Hwf Hk.
    - cbn [eff]. rewrite walk_nil, nth_error_nil_none. reflexivity.
    - destruct (Z.eq_dec k 0) as [-> | Hk0].
      + rewrite walk_zero. change (Z.to_nat 0) with 0%nat.
        destruct e as [s | n s | n s]; cbn [eff state_of_entry]; try reflexivity.
        cbn [wf_log] in Hwf. destruct Hwf as (Hn & Hw & Hwf).
        rewrite nth_error_skipn_add, Nat.add_0_r.
        rewrite <- IH by (assumption || lia). symmetry. exact Hw.
      + assert (Hpos : (0 < k)%Z) by lia.
        destruct e as [s | n s | n s]; cbn [wf_log] in Hwf.
        * rewrite walk_pos_op by assumption. cbn [eff].
          rewrite IH by (assumption || lia).
          replace (Z.to_nat k) with (S (Z.to_nat (k - 1))) by lia. reflexivity.
        * destruct Hwf as (Hn & Hw & Hwf).
          rewrite walk_pos_undo by assumption. cbn [eff].
          rewrite IH by (assumption || lia).
          rewrite nth_error_skipn_add. f_equal. lia.
        * destruct Hwf as (Hn & Hw & Hwf).
          rewrite walk_pos_redo by assumption. cbn [eff].
          rewrite IH by (assumption || lia).
          replace (Z.to_nat k) with (S (Z.to_nat (k - 1))) by lia. reflexivity.
  Qed.

  Lemma undo_spec_T :
    forall (l : list (entry T)) k,
      wf_log T l -> (1 <= k)%Z -> walk T l k = nth_error (eff T l) (Z.to_nat k).
  Proof. intros l k Hwf Hk. apply walk_eff; [assumption | lia]. Qed.

  Lemma eff_head_T :
    forall (l : list (entry T)) e,
      wf_log T (e :: l) -> hd_error (eff T (e :: l)) = Some (state_of_entry T e).
  Proof.
    intros l e Hwf. rewrite hd_error_nth_error.
    change 0%nat with (Z.to_nat 0). rewrite <- walk_eff by (assumption || lia).
    apply walk_zero.
  Qed.

  (* ---------------------------------------------------------------- k single undos *)

  Lemma undo_times_eff :
    forall k (l l' : list (entry T)),
      wf_log T l -> undo_times T l k = Some l' ->
      wf_log T l' /\ eff T l' = skipn k (eff T l).
  Proof.
    induction k as [|k IH]; intros l l' Hwf Hu.
    - cbn [undo_times] in Hu. injection Hu as <-. split; [assumption | reflexivity].
    - cbn [undo_times] in Hu. destruct (walk T l 1) as [s|] eqn:Hw; [|discriminate].
      assert (Hwf1 : wf_log T (EUndo 1 s :: l)).
      { cbn [wf_log]. split; [lia|]. split; assumption. }
      destruct (IH _ _ Hwf1 Hu) as (Hwf' & He).
      split; [assumption|]. rewrite He. cbn [eff].
      change (Z.to_nat 1) with 1%nat. rewrite skipn_skipn_add. reflexivity.
  Qed.

  Lemma undo_n_is_n_undos_T :
    forall (l l' : list (entry T)) k,
      wf_log T l -> undo_times T l k = Some l' -> (1 <= k)%nat ->
      walk T l (Z.of_nat k) = hd_error (eff T l') /\ wf_log T l'.
  Proof.
    intros l l' k Hwf Hu Hk.
    destruct (undo_times_eff _ _ _ Hwf Hu) as (Hwf' & He).
    split; [|assumption].
    rewrite He, hd_error_nth_error, nth_error_skipn_add, Nat.add_0_r.
    rewrite walk_eff by (assumption || lia). rewrite Nat2Z.id. reflexivity.
  Qed.

  (* ---------------------------------------------------------------- redo *)

  Lemma redo_spec_T :
    forall (l : list (entry T)) k,
      wf_log T l -> (1 <= k)%Z ->
      walk T l (- k)%Z = nth_error (redo_stack T l) (Z.to_nat k - 1).
  Proof.
    induction l as [|e rest IH]; intros k Hwf Hk.
    - cbn [redo_stack]. rewrite walk_nil, nth_error_nil_none. reflexivity.
    - destruct e as [s | n s | n s]; cbn [wf_log] in Hwf.
      + rewrite walk_neg_op by lia. cbn [redo_stack].
        rewrite nth_error_nil_none. reflexivity.
      + destruct Hwf as (Hn & Hw & Hwf).
        rewrite walk_neg_undo by lia. cbn [redo_stack].
        destruct (Z.eq_dec k 1) as [-> | Hk1].
        * change (- (1) + 1)%Z with 0%Z. change (Z.to_nat 1 - 1)%nat with 0%nat.
          destruct rest as [|e' rest']; [reflexivity|].
          rewrite walk_zero. reflexivity.
        * replace (- k + 1)%Z with (- (k - 1))%Z by lia.
          destruct rest as [|e' rest'].
          -- rewrite walk_nil, nth_error_nil_none. reflexivity.
          -- rewrite IH by (assumption || lia).
             replace (Z.to_nat k - 1)%nat with (S (Z.to_nat (k - 1) - 1)) by lia.
             reflexivity.
      + destruct Hwf as (Hn & Hw & Hwf).
        rewrite walk_neg_redo by lia. cbn [redo_stack].
        replace (- k - n)%Z with (- (k + n))%Z by lia.
        rewrite IH by (assumption || lia).
        rewrite nth_error_skipn_add. f_equal. lia.
  Qed.

  Lemma redo_refused_after_op_T :
    forall (l : list (entry T)) s k, (1 <= k)%Z -> walk T (EOp s :: l) (- k)%Z = None.
  Proof. intros l s k Hk. apply walk_neg_op. lia. Qed.

End LogFacts.

(* ------------------------------------------------------------------ pinned statements 1-5 *)

Lemma undo_spec :
  forall (S : Type) (l : list (entry S)) k,
    wf_log S l -> (1 <= k)%Z -> walk S l k = nth_error (eff S l) (Z.to_nat k).
Proof. exact undo_spec_T. Qed.

Lemma undo_n_is_n_undos :
  forall (S : Type) (l l' : list (entry S)) k,
    wf_log S l -> undo_times S l k = Some l' -> (1 <= k)%nat ->
    walk S l (Z.of_nat k) = hd_error (eff S l') /\ wf_log S l'.
Proof. exact undo_n_is_n_undos_T. Qed.

Lemma redo_spec :
  forall (S : Type) (l : list (entry S)) k,
    wf_log S l -> (1 <= k)%Z ->
    walk S l (- k)%Z = nth_error (redo_stack S l) (Z.to_nat k - 1).
Proof. exact redo_spec_T. Qed.

Lemma redo_refused_after_op :
  forall (S : Type) (l : list (entry S)) s k,
    (1 <= k)%Z -> walk S (EOp s :: l) (- k)%Z = None.
Proof. exact redo_refused_after_op_T. Qed.

Lemma eff_head :
  forall (S : Type) (l : list (entry S)) e,
    wf_log S (e :: l) -> hd_error (eff S (e :: l)) = Some (state_of_entry S e).
Proof. exact eff_head_T. Qed.

(* ------------------------------------------------------------------ 6: the loop is the walk *)

(* holds for every fuel: both sides run out of fuel at the same time *)
Lemma find_undo_state_is_walk_fuel :
  forall fuel objs so steps,
    find_undo_state fuel objs so steps = walk sstate (log_of fuel objs so) steps.
Proof.
  induction fuel as [|fuel IH]; intros objs so steps.
  - reflexivity.
  - cbn [find_undo_state log_of].
    destruct (get objs so) as [c|]; [|reflexivity].
    destruct (c_state c) as [st|]; [|reflexivity].
    destruct (Z.eq_dec steps 0) as [-> | Hne].
    + destruct (c_msg c); reflexivity.
    + destruct (steps =? 0)%Z eqn:E0; [apply Z.eqb_eq in E0; contradiction|].
      destruct (0 <? steps)%Z eqn:E1.
      * apply Z.ltb_lt in E1.
        destruct (c_msg c) as [ | n | n | ].
        -- rewrite walk_pos_op by assumption.
           destruct (s_prev st) as [p|]; [apply IH | reflexivity].
        -- rewrite walk_pos_undo by assumption.
           destruct (s_prev st) as [p|]; [apply IH | reflexivity].
        -- rewrite walk_pos_redo by assumption.
           destruct (s_prev st) as [p|]; [apply IH | reflexivity].
        -- rewrite walk_pos_op by assumption.
           destruct (s_prev st) as [p|]; [apply IH | reflexivity].
      * apply Z.ltb_ge in E1. assert (Hneg : (steps < 0)%Z) by lia.
        destruct (c_msg c) as [ | n | n | ].
        -- rewrite walk_neg_op by assumption. reflexivity.
        -- rewrite walk_neg_undo by assumption.
           destruct (s_prev st) as [p|]; [apply IH | reflexivity].
        -- rewrite walk_neg_redo by assumption.
           destruct (s_prev st) as [p|]; [apply IH | reflexivity].
        -- rewrite walk_neg_op by assumption. reflexivity.
Qed.

Lemma find_undo_state_is_walk :
  forall objs so steps,
    prev_decreasing objs ->
    find_undo_state (S (length objs)) objs so steps
    = walk sstate (log_of (S (length objs)) objs so) steps.
Proof. intros objs so steps _. apply find_undo_state_is_walk_fuel. Qed.

(* ------------------------------------------------------------------ 7: reset_to_state *)

Lemma name_eqb_eq : forall a b, name_eqb a b = true <-> a = b.
Proof. exact str_eqb_eq. Qed.

Lemma name_eqb_refl : forall a, name_eqb a a = true.
Proof. exact str_eqb_refl. Qed.

Lemma name_eqb_neq : forall a b, a <> b -> name_eqb a b = false.
Proof.
  intros a b Hne. destruct (name_eqb a b) eqn:E; [|reflexivity].
  apply name_eqb_eq in E. contradiction.
Qed.

Lemma up_get_remove_same : forall u n, up_get (up_remove u n) n = None.
Proof.
  induction u as [|[k v] u IH]; intros n; [reflexivity|].
  cbn [up_remove]. destruct (name_eqb k n) eqn:E; [apply IH|].
  cbn [up_get]. rewrite E. apply IH.
Qed.

Lemma up_get_remove_other :
  forall u n m, n <> m -> up_get (up_remove u n) m = up_get u m.
Proof.
  induction u as [|[k v] u IH]; intros n m Hne; [reflexivity|].
  cbn [up_remove]. destruct (name_eqb k n) eqn:E.
  - apply name_eqb_eq in E. subst k. cbn [up_get].
    rewrite (name_eqb_neq _ _ Hne). apply IH. assumption.
  - cbn [up_get]. destruct (name_eqb k m); [reflexivity|]. apply IH. assumption.
Qed.

Lemma up_get_set_same : forall u n v, up_get (up_set u n v) n = Some v.
Proof. intros u n v. unfold up_set. cbn [up_get]. rewrite name_eqb_refl. reflexivity. Qed.

Lemma up_get_set_other :
  forall u n v m, n <> m -> up_get (up_set u n v) m = up_get u m.
Proof.
  intros u n v m Hne. unfold up_set. cbn [up_get].
  rewrite (name_eqb_neq _ _ Hne). apply up_get_remove_other. assumption.
Qed.

Definition install (ps : list (name * oid)) (u : upd) : upd :=
  fold_left (fun u p => up_set u (fst p) (Some (snd p))) ps u.

Lemma install_not_key :
  forall ps u n, ~ In n (map fst ps) -> up_get (install ps u) n = up_get u n.
Proof.
  induction ps as [|[k v] ps IH]; intros u n Hn; [reflexivity|].
  unfold install. cbn [fold_left fst snd]. fold (install ps (up_set u k (Some v))).
  cbn [map fst In] in Hn.
  rewrite IH by tauto. apply up_get_set_other. tauto.
Qed.

Lemma pm_get_not_key : forall ps n, ~ In n (map fst ps) -> pm_get ps n = None.
Proof.
  induction ps as [|[k v] ps IH]; intros n Hn; [reflexivity|].
  cbn [map fst In] in Hn. cbn [pm_get].
  rewrite name_eqb_neq by tauto. apply IH. tauto.
Qed.

Lemma pm_get_some_key : forall ps n o, pm_get ps n = Some o -> In n (map fst ps).
Proof.
  induction ps as [|[k v] ps IH]; intros n o H; [discriminate|].
  cbn [pm_get] in H. cbn [map fst In].
  destruct (name_eqb k n) eqn:E.
  - left. apply name_eqb_eq. assumption.
  - right. eapply IH. eassumption.
Qed.

Lemma install_key :
  forall ps u n o,
    NoDup (map fst ps) -> pm_get ps n = Some o -> up_get (install ps u) n = Some (Some o).
Proof.
  induction ps as [|[k v] ps IH]; intros u n o Hnd Hg; [discriminate|].
  unfold install. cbn [fold_left fst snd]. fold (install ps (up_set u k (Some v))).
  cbn [map fst] in Hnd. inversion Hnd as [|x xs Hnotin Hnd']; subst.
  cbn [pm_get] in Hg. destruct (name_eqb k n) eqn:E.
  - apply name_eqb_eq in E. subst k. injection Hg as ->.
    rewrite install_not_key by assumption. apply up_get_set_same.
  - apply IH; assumption.
Qed.

Lemma mark_deleted_notin :
  forall ns u n, ~ In n ns -> up_get (mark_deleted u ns) n = up_get u n.
Proof.
  unfold mark_deleted.
  induction ns as [|x ns IH]; intros u n Hni; [reflexivity|].
  cbn [fold_left]. cbn [In] in Hni.
  rewrite IH by tauto. apply up_get_set_other. tauto.
Qed.

Lemma name_eq_dec : forall a b : name, {a = b} + {a <> b}.
Proof. intros a b. destruct (name_eqb a b) eqn:E.
  - left. apply name_eqb_eq. assumption.
  - right. intros ->. rewrite name_eqb_refl in E. discriminate.
Qed.

Lemma mark_deleted_in :
  forall ns u n, In n ns -> up_get (mark_deleted u ns) n = Some None.
Proof.
  induction ns as [|x ns IH]; intros u n Hin; [destruct Hin|].
  unfold mark_deleted. cbn [fold_left]. fold (mark_deleted (up_set u x None) ns).
  destruct (in_dec name_eq_dec n ns) as [Hi | Hni].
  - apply IH. assumption.
  - destruct Hin as [-> | Hin]; [|contradiction].
    rewrite mark_deleted_notin by assumption. apply up_get_set_same.
Qed.

(* projections of the record updates *)
Lemma reset_ok_inv :
  forall st t t',
    reset_to_state st t = TOk t' ->
    exists b,
      t' = set_lists
             (set_head
                (set_base
                   (set_updated t (install (s_patches st) (mark_deleted (t_updated t) (t_all t))))
                   (Some b))
                (Some (s_head st)))
             (s_applied st) (s_unapplied st) (s_hidden st).
Proof.
  intros st t t' H. unfold reset_to_state in H.
  match type of H with
  | match ?nb with Some _ => _ | None => _ end = _ => destruct nb as [b|]
  end; [|discriminate].
  injection H as <-. exists b. reflexivity.
Qed.

Lemma reset_lists :
  forall st t t',
    reset_to_state st t = TOk t' ->
    t_applied t' = s_applied st /\ t_unapplied t' = s_unapplied st /\ t_hidden t' = s_hidden st
    /\ t_head t' = Some (s_head st)
    /\ t_updated t' = install (s_patches st) (mark_deleted (t_updated t) (t_all t))
    /\ t_stack t' = t_stack t.
Proof.
  intros st t t' H. destruct (reset_ok_inv _ _ _ H) as (b & ->).
  repeat split; reflexivity.
Qed.

(* The pinned statement of reset_installs_state is false (see the counterexample below):
   a name listed in all_of st but absent from s_patches st keeps whatever the transaction
   knew about it when it is not in t_all t.  Variant 1: only names the state has a commit for. *)
Lemma reset_installs_state_partial :
  forall st t t',
    reset_to_state st t = TOk t' ->
    t_applied t' = s_applied st /\ t_unapplied t' = s_unapplied st /\ t_hidden t' = s_hidden st
    /\ t_head t' = Some (s_head st)
    /\ (forall n, In n (all_of st) -> NoDup (map fst (s_patches st)) ->
                  pm_get (s_patches st) n <> None ->
                  t_patch t' n = pm_get (s_patches st) n).
Proof.
  intros st t t' H.
  destruct (reset_lists _ _ _ H) as (Ha & Hu & Hh & Hhd & Hupd & Hstk).
  repeat (split; [assumption|]).
  intros n _ Hnd Hsome. unfold t_patch. rewrite Hupd.
  destruct (pm_get (s_patches st) n) as [o|] eqn:Hg; [|contradiction].
  rewrite (install_key _ _ _ _ Hnd Hg). reflexivity.
Qed.

(* Variant 2: the transaction knows no patch outside its three lists (true of every
   transaction set up from a well-formed stack); then every name agrees. *)
Lemma reset_installs_state_consistent :
  forall st t t',
    (forall n, t_patch t n <> None -> In n (t_all t)) ->
    reset_to_state st t = TOk t' ->
    t_applied t' = s_applied st /\ t_unapplied t' = s_unapplied st /\ t_hidden t' = s_hidden st
    /\ t_head t' = Some (s_head st)
    /\ (forall n, NoDup (map fst (s_patches st)) ->
                  t_patch t' n = pm_get (s_patches st) n).
Proof.
  intros st t t' Hcons H.
  destruct (reset_lists _ _ _ H) as (Ha & Hu & Hh & Hhd & Hupd & Hstk).
  repeat (split; [assumption|]).
  intros n Hnd. unfold t_patch. rewrite Hupd, Hstk.
  destruct (pm_get (s_patches st) n) as [o|] eqn:Hg.
  - rewrite (install_key _ _ _ _ Hnd Hg). reflexivity.
  - assert (Hnk : ~ In n (map fst (s_patches st))).
    { intros Hin. clear - Hin Hg. induction (s_patches st) as [|[k v] ps IH]; [destruct Hin|].
      cbn [pm_get] in Hg. destruct (name_eqb k n) eqn:E; [discriminate|].
      cbn [map fst In] in Hin. destruct Hin as [-> | Hin].
      - rewrite name_eqb_refl in E. discriminate.
      - apply IH; assumption. }
    rewrite install_not_key by assumption.
    destruct (in_dec name_eq_dec n (t_all t)) as [Hin | Hnin].
    + rewrite mark_deleted_in by assumption. reflexivity.
    + rewrite mark_deleted_notin by assumption.
      destruct (t_patch t n) as [o|] eqn:Hp.
      * exfalso. apply Hnin. apply Hcons. rewrite Hp. discriminate.
      * exact Hp.
Qed.

(* counterexample to the pinned statement *)
Definition cex_name : name := [112%N].
Definition cex_state : sstate := mkState None 0%nat [] [cex_name] [] [].
Definition cex_txn : txn :=
  mkTxn (mkState None 0%nat [] [] [] [(cex_name, 5%nat)]) 0%nat 0%nat default_opts
        [] [] [] [] None None [] [] None [] [] false.

Lemma reset_installs_state_counterexample :
  exists t',
    reset_to_state cex_state cex_txn = TOk t'
    /\ In cex_name (all_of cex_state)
    /\ NoDup (map fst (s_patches cex_state))
    /\ t_patch t' cex_name = Some 5%nat
    /\ pm_get (s_patches cex_state) cex_name = None.
Proof.
  eexists. split; [reflexivity|].
  split; [left; reflexivity|].
  split; [constructor|].
  split; reflexivity.
Qed.
