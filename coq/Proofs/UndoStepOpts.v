(* Helper for UndoStepProofs: no transaction closure changes the set_head option of the
   transaction it runs in (only the conflict mode is ever rewritten). *)
From Coq Require Import List NArith Bool Arith Lia.
From StgV Require Import Model.StackSpec Proofs.PickBasics.
Import ListNotations.
Local Open Scope nat_scope.

Definition sh (t : txn) : bool := o_set_head (t_opts t).

Definition sok (b : bool) (r : tres) : Prop :=
  match r with TOk t => sh t = b | _ => True end.

Definition skeeps (f : txn -> tres) : Prop := forall b t, sh t = b -> sok b (f t).

Lemma sok_tbind : forall b r f, sok b r -> skeeps f -> sok b (tbind r f).
Proof. intros b r f H K. destruct r; cbn [tbind]; try exact I. now apply K. Qed.

Lemma skeeps_ok : skeeps TOk.
Proof. intros b t E. exact E. Qed.

(* ---- projections ---- *)

Lemma sh_set_lists : forall t a u h, sh (set_lists t a u h) = sh t.
Proof. reflexivity. Qed.
Lemma sh_set_updated : forall t u, sh (set_updated t u) = sh t.
Proof. reflexivity. Qed.
Lemma sh_set_head : forall t h, sh (set_head t h) = sh t.
Proof. reflexivity. Qed.
Lemma sh_set_base : forall t b, sh (set_base t b) = sh t.
Proof. reflexivity. Qed.
Lemma sh_set_objs : forall t o, sh (set_objs t o) = sh t.
Proof. reflexivity. Qed.
Lemma sh_set_tmp : forall t i c, sh (set_tmp t i c) = sh t.
Proof. reflexivity. Qed.
Lemma sh_set_wt : forall t c w u, sh (set_wt t c w u) = sh t.
Proof. reflexivity. Qed.
Lemma sh_set_conflict_mode : forall t m, sh (set_conflict_mode t m) = sh t.
Proof. reflexivity. Qed.
Lemma sh_move_to_applied : forall t n, sh (move_to_applied t n) = sh t.
Proof.
  intros t n. unfold move_to_applied.
  destruct (mem n (t_unapplied t)); [reflexivity|]. destruct (mem n (t_hidden t)); reflexivity.
Qed.

#[export] Hint Rewrite sh_set_lists sh_set_updated sh_set_head sh_set_base sh_set_objs
  sh_set_tmp sh_set_wt sh_set_conflict_mode sh_move_to_applied : tsh.

Lemma sh_pop_patches : forall f t t1 inc, pop_patches f t = (t1, inc) -> sh t1 = sh t.
Proof.
  intros f t t1 inc H. unfold pop_patches in H. destruct (split_at_first f (t_applied t)).
  inversion H; subst. reflexivity.
Qed.

Lemma sh_delete_patches : forall f t t1 inc, delete_patches f t = (t1, inc) -> sh t1 = sh t.
Proof.
  intros f t t1 inc H. unfold delete_patches in H. destruct (split_at_first f (t_applied t)).
  inversion H; subst. reflexivity.
Qed.

Lemma sh_fold_left : forall (A : Type) (f : txn -> A -> txn) l t,
  (forall t a, sh (f t a) = sh t) -> sh (fold_left f l t) = sh t.
Proof.
  intros A f l. induction l as [|a l IH]; intros t H; cbn [fold_left]; [reflexivity|].
  rewrite IH by exact H. apply H.
Qed.

(* ---- tactics ---- *)

Ltac sbrk :=
  match goal with
  | |- context [match ?x with _ => _ end] =>
      lazymatch x with
      | context [match _ with _ => _ end] => fail
      | _ => destruct x eqn:?
      end
  end.

Ltac sfin E :=
  cbn [sok]; autorewrite with tsh;
  first [ exact I | exact E ].

(* ---- push ---- *)

Lemma push_patch_skeeps : forall n am, skeeps (push_patch n am).
Proof.
  intros n am b t E. unfold push_patch.
  destruct (t_patch t n) as [pc|]; [|exact I].
  destruct (t_top t) as [np|]; [|exact I].
  destruct (first_parent (t_objs t) pc) as [op|]; [|exact I].
  unfold recommit, put. cbv beta zeta.
  repeat sbrk; sfin E.
Qed.

Lemma push_list_skeeps : forall ns merged, skeeps (push_list ns merged).
Proof.
  induction ns as [|n ns IH]; intros merged b t E; cbn [push_list]; [exact E|].
  apply sok_tbind; [now apply push_patch_skeeps|apply IH].
Qed.

Lemma push_patches_skeeps : forall ns cm, skeeps (push_patches ns cm).
Proof.
  intros ns cm b t E. unfold push_patches. destruct cm.
  - destruct (check_merged_loop _ _ _ _) as [[m c] id]. apply push_list_skeeps.
    autorewrite with tsh. exact E.
  - apply push_list_skeeps. autorewrite with tsh. exact E.
Qed.

Lemma push_tree_skeeps : forall n, skeeps (push_tree n).
Proof.
  intros n b t E. unfold push_tree.
  destruct (t_patch t n) as [pc|]; [|exact I].
  destruct (t_top t) as [np|]; [|exact I].
  destruct (first_parent (t_objs t) pc) as [op|]; [|exact I].
  unfold recommit, put. cbv beta zeta.
  repeat sbrk; sfin E.
Qed.

Lemma push_tree_list_skeeps : forall ns, skeeps (push_tree_list ns).
Proof.
  induction ns as [|n ns IH]; intros b t E; cbn [push_tree_list]; [exact E|].
  apply sok_tbind; [now apply push_tree_skeeps|apply IH].
Qed.

(* ---- reorder and friends ---- *)

Lemma reorder_patches_skeeps : forall a u h, skeeps (reorder_patches a u h).
Proof.
  intros a u h b t E. unfold reorder_patches.
  apply sok_tbind.
  - destruct a as [applied|]; [|exact E].
    destruct (pop_patches _ t) as [t1 inc] eqn:PP. apply sh_pop_patches in PP.
    apply sok_tbind.
    + apply push_patches_skeeps. now rewrite PP.
    + intros b2 t2 E2. destruct (list_name_eqb _ _); [exact E2|exact I].
  - intros b3 t3 E3. destruct u, h; sfin E3.
Qed.

Lemma commit_patches_skeeps : forall tc, skeeps (commit_patches tc).
Proof.
  intros tc b t E. unfold commit_patches. apply sok_tbind.
  - destruct (Nat.ltb _ _); [|exact E].
    destruct (pop_patches _ t) as [t1 inc] eqn:PP. apply sh_pop_patches in PP.
    apply sok_tbind; [|apply skeeps_ok].
    apply push_patches_skeeps. now rewrite PP.
  - intros b2 t2 E2. destruct (hd_error (rev tc)); [|exact I].
    destruct (t_patch t2 n); [|exact I].
    destruct (Nat.ltb _ _); [exact I|].
    apply push_patches_skeeps. autorewrite with tsh. exact E2.
Qed.

Lemma uncommit_patches_skeeps : forall ps, skeeps (uncommit_patches ps).
Proof. intros ps b t E. unfold uncommit_patches. sfin E. Qed.

Lemma hide_patches_skeeps : forall th, skeeps (hide_patches th).
Proof. intros th b t E. unfold hide_patches. now apply reorder_patches_skeeps. Qed.

Lemma unhide_patches_skeeps : forall tu, skeeps (unhide_patches tu).
Proof. intros tu b t E. unfold unhide_patches. now apply reorder_patches_skeeps. Qed.

Lemma rename_patch_skeeps : forall old new, skeeps (rename_patch old new).
Proof.
  intros old new b t E. unfold rename_patch.
  repeat sbrk; sfin E.
Qed.

Lemma new_applied_skeeps : forall n o, skeeps (new_applied n o).
Proof. intros n o b t E. unfold new_applied. repeat sbrk; sfin E. Qed.

Lemma new_unapplied_skeeps : forall n o pos, skeeps (new_unapplied n o pos).
Proof. intros n o pos b t E. unfold new_unapplied. repeat sbrk; sfin E. Qed.

Lemma update_patch_skeeps : forall n o, skeeps (update_patch n o).
Proof. intros n o b t E. unfold update_patch. repeat sbrk; sfin E. Qed.

Lemma repair_appliedness_skeeps : forall a u h, skeeps (repair_appliedness a u h).
Proof. intros a u h b t E. unfold repair_appliedness. repeat sbrk; sfin E. Qed.

Lemma reset_to_state_skeeps : forall s, skeeps (reset_to_state s).
Proof.
  intros s b t E. unfold reset_to_state.
  match goal with |- sok _ (match ?x with _ => _ end) => destruct x end; sfin E.
Qed.

Lemma reset_to_state_partially_skeeps : forall s only, skeeps (reset_to_state_partially s only).
Proof.
  intros s only b t E. unfold reset_to_state_partially.
  destruct (pop_patches _ t) as [t1 inc1] eqn:PP. apply sh_pop_patches in PP.
  destruct (delete_patches _ t1) as [t2 inc2] eqn:DP. apply sh_delete_patches in DP.
  apply push_patches_skeeps.
  rewrite sh_fold_left.
  - rewrite DP, PP. exact E.
  - intros t0 n. cbv zeta.
    repeat match goal with
           | |- context [match ?x with _ => _ end] => destruct x eqn:?
           end; autorewrite with tsh; reflexivity.
Qed.

Lemma fold_tbind_skeeps : forall (A : Type) (g : A -> txn -> tres) l b r,
  (forall a, skeeps (g a)) -> sok b r ->
  sok b (fold_left (fun r c => tbind r (g c)) l r).
Proof.
  intros A g l. induction l as [|a l IH]; intros b r K H; cbn [fold_left]; [exact H|].
  apply IH; [exact K|]. apply sok_tbind; [exact H|apply K].
Qed.

(* ---- closures of the commands ---- *)

Lemma delete_push_skeeps : forall g,
  skeeps (fun t => let '(t1, to_push) := delete_patches g t in push_patches to_push false t1).
Proof.
  intros g b t E. destruct (delete_patches g t) as [t1 tp] eqn:DP.
  apply sh_delete_patches in DP. apply push_patches_skeeps. now rewrite DP.
Qed.

Lemma edit_body_skeeps : forall pn o,
  skeeps (fun t =>
           let above := after_name pn (t_applied t) in
           let '(t1, extra) := pop_patches (fun n => mem n above) t in
           match extra with
           | _ :: _ => TPanic
           | [] => tbind (update_patch pn o t1) (push_patches above false)
           end).
Proof.
  intros pn o b t E. cbv zeta.
  destruct (pop_patches _ t) as [t1 extra] eqn:PP. apply sh_pop_patches in PP.
  destruct extra; [|exact I].
  apply sok_tbind; [|apply push_patches_skeeps]. apply update_patch_skeeps. now rewrite PP.
Qed.

Lemma refresh_commit_sh : forall t pc tr t2 newc,
  refresh_commit t pc tr = (t2, newc) -> sh t2 = sh t.
Proof.
  intros t pc tr t2 newc H. unfold refresh_commit in H. destruct (tree_eqb _ _).
  - inversion H; subst. reflexivity.
  - unfold put in H. inversion H; subst. reflexivity.
Qed.

Lemma refresh_absorb_skeeps : forall pn tmpname, skeeps (refresh_absorb pn tmpname).
Proof.
  intros pn tmpname b t E. unfold refresh_absorb. destruct (mem pn (t_applied t)).
  - cbv zeta. apply sok_tbind.
    + destruct (Nat.ltb _ _); [|exact E].
      destruct (pop_patches _ t) as [t1 extra] eqn:PP. apply sh_pop_patches in PP.
      destruct extra; [|exact I]. apply push_patches_skeeps. now rewrite PP.
    + intros b' t1 E1.
      destruct (t_patch t1 pn) as [pc|]; [|exact I].
      destruct (t_patch t1 tmpname) as [tc|]; [|exact I].
      destruct (last_error _) as [top|]; [|exact I]. destruct (negb _); [exact I|].
      destruct (refresh_commit t1 pc _) as [t2 newc] eqn:RC.
      apply refresh_commit_sh in RC.
      destruct (delete_patches _ t2) as [t3 inc] eqn:DP. apply sh_delete_patches in DP.
      apply sok_tbind; [|apply push_patches_skeeps].
      destruct newc; [apply update_patch_skeeps|cbn [sok]]; congruence.
  - destruct (pop_patches _ t) as [t1 extra] eqn:PP. apply sh_pop_patches in PP.
    destruct extra; [|exact I].
    destruct (t_patch t1 pn) as [pc|]; [|exact I].
    destruct (t_patch t1 tmpname) as [tc|]; [|exact I].
    assert (E1 : sh t1 = b) by congruence.
    destruct (first_parent _ _) as [tpar|]; [|exact I].
    destruct (apply3way _ _ _ _) as [tree'|]; [|exact E1].
    destruct (refresh_commit t1 pc tree') as [t2 newc] eqn:RC.
    apply refresh_commit_sh in RC.
    apply sok_tbind.
    + destruct newc; [apply update_patch_skeeps|cbn [sok]]; congruence.
    + intros b' t3 E3. destruct (delete_patches _ t3) as [t4 inc] eqn:DP.
      apply sh_delete_patches in DP. cbn [fst sok]. congruence.
Qed.

Lemma try_squash_sh : forall t ps meta msg t1 o,
  try_squash t ps meta msg = Some (t1, o) -> sh t1 = sh t.
Proof.
  intros t ps meta msg t1 o H. unfold try_squash in H.
  destruct ps as [|b rest]; [discriminate|].
  destruct (t_patch t b) as [bc|]; [|discriminate].
  destruct (squash_tree (t_objs t) t rest (tree_of (t_objs t) bc)) as [tr|]; [|discriminate].
  unfold put in H. inversion H; subst. reflexivity.
Qed.

Lemma squash_finish_skeeps : forall newn o to_push sp, skeeps (squash_finish newn o to_push sp).
Proof.
  intros newn o to_push sp b t E. unfold squash_finish.
  apply sok_tbind; [now apply new_unapplied_skeeps|apply push_patches_skeeps].
Qed.

Lemma squash_closure_skeeps : forall ps newn meta msg sp, skeeps (squash_closure ps newn meta msg sp).
Proof.
  intros ps newn meta msg sp b t E. unfold squash_closure.
  destruct (try_squash t ps meta msg) as [[t1 o]|] eqn:Et.
  - apply try_squash_sh in Et.
    destruct (delete_patches _ t1) as [t2 tp] eqn:DP. apply sh_delete_patches in DP.
    apply squash_finish_skeeps. congruence.
  - destruct (pop_patches _ t) as [t1 tp] eqn:PP. apply sh_pop_patches in PP.
    apply sok_tbind; [apply push_patches_skeeps; congruence|].
    intros b2 t2 E2. cbv beta.
    destruct (try_squash t2 ps meta msg) as [[t3 o]|] eqn:Et2; [|exact I].
    apply try_squash_sh in Et2.
    destruct (delete_patches _ t3) as [t4 extra] eqn:DP. apply sh_delete_patches in DP.
    destruct extra; [|exact I]. apply squash_finish_skeeps. congruence.
Qed.

Lemma pick_body_skeeps : forall pn o na, skeeps (pick_body pn o na).
Proof.
  intros pn o na b t E. unfold pick_body.
  apply sok_tbind; [now apply new_unapplied_skeeps|].
  intros b2 t2 E2. destruct na; [exact E2|now apply push_patches_skeeps].
Qed.
