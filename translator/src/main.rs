//! Translator: regenerates the declarative part of the Coq model (coq/Gen/*.v) from the
//! current stgit sources.
//!
//! usage: stgit-translator <repo>/src <outdir>
//!
//! Extracted facts (exactly the facts a one-token source change alters):
//!   Consts.v    - numeric / character constants the model depends on
//!   CmdTable.v  - per command file: initialization policies, transaction builder chains
//!                 (option name, normalised boolean argument, reflog message), pre-check
//!                 calls with their guards, repository-writing calls with their guards
//!   ExecOrder.v - the ordered list of publication-relevant events inside
//!                 `ExecuteContext::execute`, `checkout`, `signal::critical`,
//!                 `Stack::log_external_mods` and `StackState::commit`
//!   PanicSites.v - every unwrap/expect/assert/panic/unreachable/index site of the modelled
//!                 modules keyed by (file, fn, normalised text)
//!
//! Anything the translator does not understand becomes `BUnknown "<tokens>"` /
//! an `"?..."` event; obligations on the Coq side then fail visibly.

use std::collections::BTreeMap;
use std::fmt::Write as _;
use std::path::{Path, PathBuf};

use quote::ToTokens;
use syn::visit::Visit;

// ------------------------------------------------------------------------------- helpers

fn coq_str(s: &str) -> String {
    let mut out = String::from("\"");
    for c in s.chars() {
        if c == '"' {
            out.push_str("\"\"");
        } else if c == '\n' || c == '\r' || c == '\t' {
            out.push(' ');
        } else if (c as u32) < 128 {
            out.push(c);
        } else {
            out.push('?');
        }
    }
    out.push('"');
    out
}

fn toks<T: ToTokens>(t: &T) -> String {
    let s = t.to_token_stream().to_string();
    // normalise whitespace
    s.split_whitespace().collect::<Vec<_>>().join(" ")
}

fn rs_files(dir: &Path, out: &mut Vec<PathBuf>) {
    let mut entries: Vec<_> = std::fs::read_dir(dir)
        .unwrap_or_else(|e| panic!("read_dir {dir:?}: {e}"))
        .filter_map(Result::ok)
        .map(|e| e.path())
        .collect();
    entries.sort();
    for p in entries {
        if p.is_dir() {
            rs_files(&p, out);
        } else if p.extension().is_some_and(|e| e == "rs") {
            out.push(p);
        }
    }
}

// ------------------------------------------------------------------------------- bexpr

#[derive(Clone, Debug, PartialEq)]
enum BExpr {
    True,
    False,
    Flag(String),
    Contains(String),
    IsNone(String),
    IsSome(String),
    Not(Box<BExpr>),
    And(Box<BExpr>, Box<BExpr>),
    Or(Box<BExpr>, Box<BExpr>),
    Var(String),
    Unknown(String),
}

impl BExpr {
    fn coq(&self) -> String {
        match self {
            BExpr::True => "BTrue".into(),
            BExpr::False => "BFalse".into(),
            BExpr::Flag(s) => format!("(BFlag {})", coq_str(s)),
            BExpr::Contains(s) => format!("(BContains {})", coq_str(s)),
            BExpr::IsNone(s) => format!("(BIsNone {})", coq_str(s)),
            BExpr::IsSome(s) => format!("(BIsSome {})", coq_str(s)),
            BExpr::Not(e) => format!("(BNot {})", e.coq()),
            BExpr::And(a, b) => format!("(BAnd {} {})", a.coq(), b.coq()),
            BExpr::Or(a, b) => format!("(BOr {} {})", a.coq(), b.coq()),
            BExpr::Var(s) => format!("(BVar {})", coq_str(s)),
            BExpr::Unknown(s) => format!("(BUnknown {})", coq_str(s)),
        }
    }
}

fn lit_str(e: &syn::Expr) -> Option<String> {
    if let syn::Expr::Lit(syn::ExprLit {
        lit: syn::Lit::Str(s),
        ..
    }) = e
    {
        Some(s.value())
    } else {
        None
    }
}

/// `matches.get_one::<T>("id")` (possibly followed by .copied()/.cloned()/.map(..)) -> id
fn get_one_id(e: &syn::Expr) -> Option<String> {
    match e {
        syn::Expr::MethodCall(mc) => {
            let m = mc.method.to_string();
            if (m == "get_one" || m == "get_many") && mc.args.len() == 1 {
                lit_str(&mc.args[0])
            } else if m == "copied" || m == "cloned" || m == "map" || m == "as_ref" {
                get_one_id(&mc.receiver)
            } else {
                None
            }
        }
        syn::Expr::Call(c) => {
            // argset::get_one_str(matches, "id")
            let f = toks(&c.func);
            if f.ends_with("get_one_str") && c.args.len() == 2 {
                lit_str(&c.args[1])
            } else {
                None
            }
        }
        syn::Expr::Paren(p) => get_one_id(&p.expr),
        syn::Expr::Reference(r) => get_one_id(&r.expr),
        _ => None,
    }
}

type Env = BTreeMap<String, EnvVal>;

#[derive(Clone, Debug)]
enum EnvVal {
    Bool(BExpr),
    Opt(String), // an Option coming from matches.get_one::<T>("id")
}

fn bexpr(e: &syn::Expr, env: &Env) -> BExpr {
    match e {
        syn::Expr::Lit(syn::ExprLit {
            lit: syn::Lit::Bool(b),
            ..
        }) => {
            if b.value {
                BExpr::True
            } else {
                BExpr::False
            }
        }
        syn::Expr::Paren(p) => bexpr(&p.expr, env),
        syn::Expr::Group(g) => bexpr(&g.expr, env),
        syn::Expr::Unary(u) if matches!(u.op, syn::UnOp::Not(_)) => {
            BExpr::Not(Box::new(bexpr(&u.expr, env)))
        }
        syn::Expr::Binary(b) if matches!(b.op, syn::BinOp::And(_)) => {
            BExpr::And(Box::new(bexpr(&b.left, env)), Box::new(bexpr(&b.right, env)))
        }
        syn::Expr::Binary(b) if matches!(b.op, syn::BinOp::Or(_)) => {
            BExpr::Or(Box::new(bexpr(&b.left, env)), Box::new(bexpr(&b.right, env)))
        }
        syn::Expr::Path(p) if p.path.segments.len() == 1 => {
            let name = p.path.segments[0].ident.to_string();
            match env.get(&name) {
                Some(EnvVal::Bool(b)) => b.clone(),
                _ => BExpr::Var(name),
            }
        }
        syn::Expr::MethodCall(mc) => {
            let m = mc.method.to_string();
            let recv_is_matches = toks(&mc.receiver) == "matches";
            if recv_is_matches && m == "get_flag" && mc.args.len() == 1 {
                if let Some(s) = lit_str(&mc.args[0]) {
                    return BExpr::Flag(s);
                }
            }
            if recv_is_matches && m == "contains_id" && mc.args.len() == 1 {
                if let Some(s) = lit_str(&mc.args[0]) {
                    return BExpr::Contains(s);
                }
            }
            if (m == "is_none" || m == "is_some") && mc.args.is_empty() {
                let id = get_one_id(&mc.receiver).or_else(|| {
                    if let syn::Expr::Path(p) = &*mc.receiver {
                        if p.path.segments.len() == 1 {
                            if let Some(EnvVal::Opt(id)) =
                                env.get(&p.path.segments[0].ident.to_string())
                            {
                                return Some(id.clone());
                            }
                        }
                    }
                    None
                });
                if let Some(id) = id {
                    return if m == "is_none" {
                        BExpr::IsNone(id)
                    } else {
                        BExpr::IsSome(id)
                    };
                }
            }
            BExpr::Unknown(toks(e))
        }
        _ => BExpr::Unknown(toks(e)),
    }
}

// ------------------------------------------------------------------------------- cmd visitor

#[derive(Debug)]
struct TxnSite {
    func: String,
    line: usize,
    opts: Vec<(String, BExpr)>,
    reflog: String,
}

#[derive(Debug)]
struct GuardedCall {
    func: String,
    line: usize,
    name: String,
    guards: Vec<BExpr>,
}

#[derive(Default)]
struct CmdVisitor {
    cur_fn: Vec<String>,
    env: Env,
    guards: Vec<BExpr>,
    policies: Vec<(String, usize, String)>, // (fn, line, policy)
    txns: Vec<TxnSite>,
    prechecks: Vec<GuardedCall>,
    writes: Vec<GuardedCall>,
    hard_checkouts: Vec<GuardedCall>,
    branch_arg: bool,
}

const PRECHECKS: &[&str] = &[
    "check_repository_state",
    "check_conflicts",
    "check_head_top_mismatch",
    "check_index_and_worktree_clean",
    "check_index_clean",
    "check_worktree_clean",
    "is_protected",
];

const WRITES: &[&str] = &[
    "edit_reference",
    "edit_references",
    "reference",
    "set_target_id",
    "delete",
    "write_local_config",
    "log_external_mods",
    "clear_state_log",
    "deinitialize",
    "set_protected",
    "setup_transaction",
    "set_raw_value_by",
    "remove_section",
    "set_branch_description",
    "update_ref",
    "checkout",
    "branch_move",
    "branch_copy",
];

const BUILDER_OPTS: &[&str] = &[
    "allow_bad_head",
    "allow_conflicts",
    "allow_conflicts_if_same_top",
    "allow_push_conflicts",
    "discard_changes",
    "use_index_and_worktree",
    "set_head",
    "committer_date_is_author_date",
];

impl CmdVisitor {
    fn fn_name(&self) -> String {
        self.cur_fn.last().cloned().unwrap_or_default()
    }
}

impl<'ast> Visit<'ast> for CmdVisitor {
    fn visit_item_fn(&mut self, f: &'ast syn::ItemFn) {
        // skip test code
        if f.attrs.iter().any(|a| toks(a).contains("cfg (test)")) {
            return;
        }
        self.cur_fn.push(f.sig.ident.to_string());
        let saved_env = std::mem::take(&mut self.env);
        let saved_guards = std::mem::take(&mut self.guards);
        syn::visit::visit_item_fn(self, f);
        self.env = saved_env;
        self.guards = saved_guards;
        self.cur_fn.pop();
    }

    fn visit_impl_item_fn(&mut self, f: &'ast syn::ImplItemFn) {
        self.cur_fn.push(f.sig.ident.to_string());
        let saved_env = std::mem::take(&mut self.env);
        let saved_guards = std::mem::take(&mut self.guards);
        syn::visit::visit_impl_item_fn(self, f);
        self.env = saved_env;
        self.guards = saved_guards;
        self.cur_fn.pop();
    }

    fn visit_item_mod(&mut self, m: &'ast syn::ItemMod) {
        if m.attrs.iter().any(|a| toks(a).contains("cfg (test)")) {
            return;
        }
        syn::visit::visit_item_mod(self, m);
    }

    fn visit_local(&mut self, l: &'ast syn::Local) {
        if let (syn::Pat::Ident(pi), Some(init)) = (&l.pat, &l.init) {
            let name = pi.ident.to_string();
            if let Some(id) = get_one_id(&init.expr) {
                self.env.insert(name, EnvVal::Opt(id));
            } else {
                let b = bexpr(&init.expr, &self.env);
                if !matches!(b, BExpr::Unknown(_)) {
                    self.env.insert(name, EnvVal::Bool(b));
                } else {
                    self.env.remove(&name);
                }
            }
        }
        syn::visit::visit_local(self, l);
    }

    fn visit_expr_if(&mut self, e: &'ast syn::ExprIf) {
        self.visit_expr(&e.cond);
        let cond = if let syn::Expr::Let(_) = &*e.cond {
            BExpr::Unknown(toks(&e.cond))
        } else {
            bexpr(&e.cond, &self.env)
        };
        self.guards.push(cond.clone());
        self.visit_block(&e.then_branch);
        self.guards.pop();
        if let Some((_, else_branch)) = &e.else_branch {
            self.guards.push(BExpr::Not(Box::new(cond)));
            self.visit_expr(else_branch);
            self.guards.pop();
        }
    }

    fn visit_expr_path(&mut self, p: &'ast syn::ExprPath) {
        let segs: Vec<String> = p.path.segments.iter().map(|s| s.ident.to_string()).collect();
        if segs.len() >= 2 && segs[segs.len() - 2] == "InitializationPolicy" {
            let line = p.path.segments[0].ident.span().start().line;
            self.policies
                .push((self.fn_name(), line, segs[segs.len() - 1].clone()));
        }
        syn::visit::visit_expr_path(self, p);
    }

    fn visit_expr_call(&mut self, c: &'ast syn::ExprCall) {
        let f = toks(&c.func);
        let last = f.rsplit("::").next().unwrap_or("").trim().to_string();
        if last == "branch_arg" {
            self.branch_arg = true;
        }
        syn::visit::visit_expr_call(self, c);
    }

    fn visit_expr_method_call(&mut self, mc: &'ast syn::ExprMethodCall) {
        let m = mc.method.to_string();
        let line = mc.method.span().start().line;
        if m == "execute" && mc.args.len() == 1 {
            // walk the receiver chain down to setup_transaction()
            let mut opts = Vec::new();
            let mut cur: &syn::Expr = &mc.receiver;
            let mut found = false;
            loop {
                match cur {
                    syn::Expr::MethodCall(inner) => {
                        let name = inner.method.to_string();
                        if name == "setup_transaction" {
                            found = true;
                            break;
                        }
                        if BUILDER_OPTS.contains(&name.as_str()) {
                            let arg = inner
                                .args
                                .first()
                                .map(|a| bexpr(a, &self.env))
                                .unwrap_or(BExpr::Unknown("<noarg>".into()));
                            opts.push((name, arg));
                        } else if name != "transact" && name != "with_output_stream" {
                            opts.push((name.clone(), BExpr::Unknown(format!("<method {name}>"))));
                        }
                        cur = &inner.receiver;
                    }
                    syn::Expr::Paren(p) => cur = &p.expr,
                    syn::Expr::Try(t) => cur = &t.expr,
                    _ => break,
                }
            }
            if found {
                opts.reverse();
                self.txns.push(TxnSite {
                    func: self.fn_name(),
                    line,
                    opts,
                    reflog: toks(&mc.args[0]),
                });
            }
        }
        if PRECHECKS.contains(&m.as_str()) {
            self.prechecks.push(GuardedCall {
                func: self.fn_name(),
                line,
                name: m.clone(),
                guards: self.guards.clone(),
            });
        }
        if WRITES.contains(&m.as_str()) {
            self.writes.push(GuardedCall {
                func: self.fn_name(),
                line,
                name: m.clone(),
                guards: self.guards.clone(),
            });
        }
        if m == "read_tree_checkout_hard" {
            self.hard_checkouts.push(GuardedCall {
                func: self.fn_name(),
                line,
                name: m.clone(),
                guards: self.guards.clone(),
            });
        }
        syn::visit::visit_expr_method_call(self, mc);
    }
}

fn coq_list<T>(items: &[T], f: impl Fn(&T) -> String) -> String {
    if items.is_empty() {
        "[]".to_string()
    } else {
        format!(
            "[{}]",
            items.iter().map(f).collect::<Vec<_>>().join(";\n     ")
        )
    }
}

fn guarded(gc: &GuardedCall) -> String {
    format!(
        "(mkGuarded {} {} {})",
        coq_str(&gc.func),
        coq_str(&gc.name),
        coq_list(&gc.guards, |g| g.coq())
    )
}

// ------------------------------------------------------------------------------- event visitor

/// Records, in source order, the calls inside one function that matter for the
/// publication protocol.
struct EventVisitor {
    target_fn: String,
    in_target: bool,
    events: Vec<(usize, usize, String)>,
}

impl EventVisitor {
    fn push(&mut self, span: proc_macro2::Span, ev: String) {
        let s = span.start();
        self.events.push((s.line, s.column, ev));
    }
}

impl<'ast> Visit<'ast> for EventVisitor {
    fn visit_item_fn(&mut self, f: &'ast syn::ItemFn) {
        if f.sig.ident == self.target_fn.as_str() {
            self.in_target = true;
            syn::visit::visit_item_fn(self, f);
            self.in_target = false;
        }
    }
    fn visit_impl_item_fn(&mut self, f: &'ast syn::ImplItemFn) {
        if f.sig.ident == self.target_fn.as_str() {
            self.in_target = true;
            syn::visit::visit_impl_item_fn(self, f);
            self.in_target = false;
        }
    }
    fn visit_expr_return(&mut self, r: &'ast syn::ExprReturn) {
        if self.in_target {
            let what: String = r.expr.as_ref().map(|e| toks(e)).unwrap_or_default();
            let what: String = what.chars().filter(|c| !c.is_whitespace()).take(28).collect();
            self.push(r.return_token.span, format!("return {what}"));
        }
        syn::visit::visit_expr_return(self, r);
    }
    fn visit_expr_call(&mut self, c: &'ast syn::ExprCall) {
        if self.in_target {
            let f = toks(&c.func);
            let last = f.rsplit("::").next().unwrap_or("").trim().to_string();
            let watch = [
                "checkout", "critical", "rollback", "anyhow", "exit",
            ];
            if watch.contains(&last.as_str()) {
                let first_args: Vec<String> = c.args.iter().take(6).map(toks).collect();
                let span = match &*c.func {
                    syn::Expr::Path(p) => p.path.segments[0].ident.span(),
                    _ => proc_macro2::Span::call_site(),
                };
                let detail = if last == "checkout" {
                    // the two tree arguments decide what is checked out
                    let n = first_args.len();
                    let tail = if n >= 2 { first_args[n - 2..].join("->") } else { first_args.join(",") };
                    format!("checkout({tail})")
                } else if last == "rollback" {
                    format!("rollback({})", first_args.first().cloned().unwrap_or_default())
                } else {
                    f.replace(' ', "")
                };
                self.push(span, format!("call {detail}"));
            }
        }
        syn::visit::visit_expr_call(self, c);
    }
    fn visit_expr_method_call(&mut self, mc: &'ast syn::ExprMethodCall) {
        if self.in_target {
            let m = mc.method.to_string();
            let watch = [
                "log_external_mods",
                "check_head_top_mismatch",
                "find_reference",
                "commit",
                "edit_references",
                "edit_reference",
                "update_head",
                "is_head_top",
                "print_rolled_back",
                "load",
                "store",
                "commit_with_options",
                "reference",
                "read_tree_checkout",
                "read_tree_checkout_hard",
                "update_index_refresh",
                "check_conflicts",
                "advance_head",
                "make_tree",
                "shift_remove",
                "insert",
                "drain",
            ];
            if watch.contains(&m.as_str()) {
                let args: Vec<String> = mc.args.iter().map(toks).collect();
                let recv = toks(&mc.receiver);
                let all_args = args.join(", ");
                // coarse, rename-tolerant event text: method name plus a classification of
                // the arguments that matter for the protocol
                let detail = match m.as_str() {
                    "find_reference" => {
                        if all_args.contains("stack_refname") {
                            "state-ref".to_string()
                        } else if all_args.contains("branch_ref") {
                            "branch-ref".to_string()
                        } else {
                            all_args.clone()
                        }
                    }
                    "insert" | "shift_remove" | "drain" | "store" | "load" => {
                        let r: String = recv.chars().filter(|c| !c.is_whitespace()).take(24).collect();
                        let a: String = all_args.chars().filter(|c| !c.is_whitespace()).take(60).collect();
                        format!("{r}<-{a}")
                    }
                    "commit" | "commit_with_options" | "reference" | "advance_head" | "make_tree" => {
                        let a: String = all_args.chars().filter(|c| !c.is_whitespace()).take(70).collect();
                        a
                    }
                    "read_tree_checkout" => all_args.replace(' ', ""),
                    _ => String::new(),
                };
                self.push(mc.method.span(), format!("{m}({detail})"));
            }
            if m == "push" && toks(&mc.receiver) == "ref_edits" {
                // classify by the `name:` field and the PreviousValue constructors used
                let t = mc.args.first().map(toks).unwrap_or_default();
                let kind = if t.contains("patch_refname") {
                    "patch"
                } else if t.contains("get_stack_refname") {
                    "state"
                } else if t.contains("branch_ref_name") {
                    "branch"
                } else {
                    "?"
                };
                let mut prevs = Vec::new();
                for key in ["ExistingMustMatch", "MustNotExist", "MustExist", "Any"] {
                    if t.contains(&format!("PreviousValue :: {key}")) {
                        prevs.push(key);
                    }
                }
                let changes = if t.contains("Change :: Delete") && t.contains("Change :: Update") {
                    "update|delete"
                } else if t.contains("Change :: Delete") {
                    "delete"
                } else {
                    "update"
                };
                self.push(
                    mc.method.span(),
                    format!("ref_edits.push {kind} {changes} expected={}", prevs.join("|")),
                );
            }
        }
        syn::visit::visit_expr_method_call(self, mc);
    }
    fn visit_expr_if(&mut self, e: &'ast syn::ExprIf) {
        if self.in_target {
            let c = toks(&e.cond);
            if c.contains("set_head") || c.contains("use_index_and_worktree")
                || c.contains("allow_bad_head") || c.contains("discard_changes")
                || c.contains("SIGNALED") || c.contains("CRITICAL") || c.contains("is_ok")
                || c.contains("MAX_PARENTS")
            {
                self.push(e.if_token.span, format!("if {c}"));
            }
        }
        syn::visit::visit_expr_if(self, e);
    }
    fn visit_expr_while(&mut self, e: &'ast syn::ExprWhile) {
        if self.in_target {
            self.push(e.while_token.span, format!("while {}", toks(&e.cond)));
        }
        syn::visit::visit_expr_while(self, e);
    }
    fn visit_expr_try(&mut self, t: &'ast syn::ExprTry) {
        syn::visit::visit_expr_try(self, t);
    }
    fn visit_expr_struct(&mut self, st: &'ast syn::ExprStruct) {
        if self.in_target {
            let segs: Vec<String> = st.path.segments.iter().map(|s| s.ident.to_string()).collect();
            let n = segs.len();
            if n >= 2 && segs[n - 2] == "Change" && (segs[n - 1] == "Update" || segs[n - 1] == "Delete") {
                let mut expected = String::from("?");
                for f in &st.fields {
                    if let syn::Member::Named(id) = &f.member {
                        if id == "expected" {
                            let t = toks(&f.expr);
                            let mut ks = Vec::new();
                            for key in ["ExistingMustMatch", "MustNotExist", "MustExistAndMatch", "MustExist", "Any"] {
                                if t.contains(&format!("PreviousValue :: {key}")) {
                                    ks.push(key);
                                }
                            }
                            expected = ks.join("|");
                        }
                    }
                }
                self.push(
                    st.path.segments[0].ident.span(),
                    format!("Change::{} expected={}", segs[n - 1], expected),
                );
            }
        }
        syn::visit::visit_expr_struct(self, st);
    }
}

fn events_of(file: &syn::File, func: &str) -> Vec<String> {
    let mut v = EventVisitor {
        target_fn: func.to_string(),
        in_target: false,
        events: Vec::new(),
    };
    v.visit_file(file);
    v.events.sort();
    v.events.into_iter().map(|(_, _, e)| e).collect()
}

// ------------------------------------------------------------------------------- panic sites

struct PanicVisitor {
    cur_fn: Vec<String>,
    sites: Vec<(String, String, String)>, // fn, kind, text
}

impl<'ast> Visit<'ast> for PanicVisitor {
    fn visit_item_fn(&mut self, f: &'ast syn::ItemFn) {
        if f.attrs.iter().any(|a| toks(a).contains("cfg (test)"))
            || f.attrs.iter().any(|a| toks(a).contains("cfg (stgit_verif)"))
        {
            return;
        }
        self.cur_fn.push(f.sig.ident.to_string());
        syn::visit::visit_item_fn(self, f);
        self.cur_fn.pop();
    }
    fn visit_impl_item_fn(&mut self, f: &'ast syn::ImplItemFn) {
        self.cur_fn.push(f.sig.ident.to_string());
        syn::visit::visit_impl_item_fn(self, f);
        self.cur_fn.pop();
    }
    fn visit_item_mod(&mut self, m: &'ast syn::ItemMod) {
        if m.attrs.iter().any(|a| toks(a).contains("cfg (test)")) {
            return;
        }
        syn::visit::visit_item_mod(self, m);
    }
    fn visit_expr_method_call(&mut self, mc: &'ast syn::ExprMethodCall) {
        let m = mc.method.to_string();
        if m == "unwrap" || m == "expect" {
            let recv: String = toks(&mc.receiver).chars().take(70).collect();
            self.sites.push((
                self.cur_fn.last().cloned().unwrap_or_default(),
                m,
                recv,
            ));
        }
        syn::visit::visit_expr_method_call(self, mc);
    }
    fn visit_macro(&mut self, m: &'ast syn::Macro) {
        let name = m.path.segments.last().map(|s| s.ident.to_string()).unwrap_or_default();
        if ["assert", "assert_eq", "assert_ne", "panic", "unreachable", "todo", "unimplemented"]
            .contains(&name.as_str())
        {
            let t: String = m.tokens.to_string().split_whitespace().collect::<Vec<_>>().join(" ");
            let t: String = t.chars().take(70).collect();
            self.sites
                .push((self.cur_fn.last().cloned().unwrap_or_default(), name, t));
        }
        syn::visit::visit_macro(self, m);
    }
    fn visit_expr_index(&mut self, i: &'ast syn::ExprIndex) {
        let t: String = toks(i).chars().take(70).collect();
        self.sites.push((
            self.cur_fn.last().cloned().unwrap_or_default(),
            "index".into(),
            t,
        ));
        syn::visit::visit_expr_index(self, i);
    }
}

// ------------------------------------------------------------------------------- consts

struct ConstVisitor {
    consts: BTreeMap<String, String>,
}

impl<'ast> Visit<'ast> for ConstVisitor {
    fn visit_item_const(&mut self, c: &'ast syn::ItemConst) {
        self.consts.insert(c.ident.to_string(), toks(&c.expr));
        syn::visit::visit_item_const(self, c);
    }
}

/// chars listed in a `'a' | 'b' | ...` pattern
fn pat_chars(p: &syn::Pat, out: &mut Vec<u32>) {
    match p {
        syn::Pat::Or(o) => {
            for c in &o.cases {
                pat_chars(c, out);
            }
        }
        syn::Pat::Lit(l) => {
            if let syn::Lit::Char(c) = &l.lit {
                out.push(c.value() as u32);
            }
        }
        _ => {}
    }
}

struct CharSetVisitor {
    target_fn: String,
    in_target: bool,
    let_pat_chars: Vec<Vec<u32>>,   // from `if let 'a' | 'b' = c`
    matches_chars: Vec<Vec<u32>>,   // from matches!(c, 'a' | 'b')
    int_lits: Vec<String>,
    str_lits: Vec<String>,
}

impl<'ast> Visit<'ast> for CharSetVisitor {
    fn visit_item_fn(&mut self, f: &'ast syn::ItemFn) {
        if f.sig.ident == self.target_fn.as_str() {
            self.in_target = true;
            syn::visit::visit_item_fn(self, f);
            self.in_target = false;
        }
    }
    fn visit_impl_item_fn(&mut self, f: &'ast syn::ImplItemFn) {
        if f.sig.ident == self.target_fn.as_str() {
            self.in_target = true;
            syn::visit::visit_impl_item_fn(self, f);
            self.in_target = false;
        }
    }
    fn visit_expr_let(&mut self, l: &'ast syn::ExprLet) {
        if self.in_target {
            let mut v = Vec::new();
            pat_chars(&l.pat, &mut v);
            if !v.is_empty() {
                self.let_pat_chars.push(v);
            }
        }
        syn::visit::visit_expr_let(self, l);
    }
    fn visit_macro(&mut self, m: &'ast syn::Macro) {
        if self.in_target && m.path.is_ident("matches") {
            // parse `expr, pat`
            let t = m.tokens.to_string();
            let mut v = Vec::new();
            let mut chars = t.chars().peekable();
            // crude but sufficient: collect every char literal in the token text
            let mut buf = String::new();
            while let Some(c) = chars.next() {
                if c == '\'' {
                    buf.clear();
                    for d in chars.by_ref() {
                        if d == '\'' && !buf.ends_with('\\') || (d == '\'' && buf == "\\\\") {
                            break;
                        }
                        buf.push(d);
                    }
                    if let Ok(lit) = syn::parse_str::<syn::LitChar>(&format!("'{buf}'")) {
                        v.push(lit.value() as u32);
                    }
                }
            }
            if !v.is_empty() {
                self.matches_chars.push(v);
            }
        }
        syn::visit::visit_macro(self, m);
    }
    fn visit_lit_int(&mut self, l: &'ast syn::LitInt) {
        if self.in_target {
            self.int_lits.push(l.base10_digits().to_string());
        }
    }
    fn visit_lit_str(&mut self, l: &'ast syn::LitStr) {
        if self.in_target {
            self.str_lits.push(l.value());
        }
    }
}

fn charsets(file: &syn::File, func: &str) -> CharSetVisitor {
    let mut v = CharSetVisitor {
        target_fn: func.to_string(),
        in_target: false,
        let_pat_chars: vec![],
        matches_chars: vec![],
        int_lits: vec![],
        str_lits: vec![],
    };
    v.visit_file(file);
    v
}

fn nlist(v: &[u32]) -> String {
    format!(
        "[{}]",
        v.iter().map(|c| c.to_string()).collect::<Vec<_>>().join("; ")
    )
}

// ------------------------------------------------------------------------------- main

fn main() {
    let args: Vec<String> = std::env::args().collect();
    if args.len() != 3 {
        eprintln!("usage: stgit-translator <repo>/src <outdir>");
        std::process::exit(2);
    }
    let src = PathBuf::from(&args[1]);
    let out = PathBuf::from(&args[2]);
    let mut files = Vec::new();
    rs_files(&src, &mut files);

    let mut parsed: BTreeMap<String, syn::File> = BTreeMap::new();
    for f in &files {
        let rel = f.strip_prefix(&src).unwrap().to_string_lossy().to_string();
        let text = std::fs::read_to_string(f).unwrap();
        match syn::parse_file(&text) {
            Ok(file) => {
                parsed.insert(rel, file);
            }
            Err(e) => {
                eprintln!("parse error in {rel}: {e}");
                std::process::exit(1);
            }
        }
    }

    // ---------------- Consts.v
    let mut consts = ConstVisitor {
        consts: BTreeMap::new(),
    };
    for (rel, file) in &parsed {
        if ["main.rs", "signal.rs", "stack/state.rs", "stack/serde.rs"].contains(&rel.as_str()) {
            consts.visit_file(file);
        }
    }
    let num = |name: &str| -> String {
        consts
            .consts
            .get(name)
            .and_then(|s| s.trim().parse::<i64>().ok())
            .map(|n| n.to_string())
            .unwrap_or_else(|| "0 (* UNKNOWN *)".to_string())
    };
    let mut s = String::new();
    writeln!(s, "(* GENERATED by /verif/translator from /repo/src - do not edit *)").unwrap();
    writeln!(s, "From Coq Require Import List NArith ZArith String.").unwrap();
    writeln!(s, "Import ListNotations.").unwrap();
    writeln!(s, "Definition max_parents : N := {}%N.", num("MAX_PARENTS")).unwrap();
    writeln!(s, "Definition general_error : Z := {}%Z.", num("GENERAL_ERROR")).unwrap();
    writeln!(s, "Definition command_error : Z := {}%Z.", num("COMMAND_ERROR")).unwrap();
    writeln!(s, "Definition conflict_error : Z := {}%Z.", num("CONFLICT_ERROR")).unwrap();
    writeln!(s, "Definition sigint_code : Z := {}%Z.", num("SIGINT_CODE")).unwrap();
    if let Some(name_rs) = parsed.get("patch/name.rs") {
        let v = charsets(name_rs, "validate");
        let forbidden = v.let_pat_chars.first().cloned().unwrap_or_default();
        writeln!(s, "Definition validate_forbidden : list N := {}%N.", nlist(&forbidden)).unwrap();
        let strs: Vec<String> = v
            .str_lits
            .iter()
            .filter(|x| [".lock", "{base}", "@"].contains(&x.as_str()))
            .cloned()
            .collect();
        writeln!(
            s,
            "Definition validate_special_strings : list string := {}%string.",
            coq_list(&strs, |x| coq_str(x))
        )
        .unwrap();
        let g = charsets(name_rs, "get_length_limit");
        writeln!(
            s,
            "Definition default_name_length : N := {}%N.",
            g.int_lits.first().cloned().unwrap_or_else(|| "0".into())
        )
        .unwrap();
        let mk = charsets(name_rs, "make");
        let strs: Vec<String> = mk
            .str_lits
            .iter()
            .filter(|x| x.len() <= 8)
            .cloned()
            .collect();
        writeln!(
            s,
            "Definition make_strings : list string := {}%string.",
            coq_list(&strs, |x| coq_str(x))
        )
        .unwrap();
    }
    if let Some(pn_rs) = parsed.get("patch/parse/name.rs") {
        let v = charsets(pn_rs, "patch_name");
        let brk = v.matches_chars.first().cloned().unwrap_or_default();
        writeln!(s, "Definition parser_break_chars : list N := {}%N.", nlist(&brk)).unwrap();
    }
    if let Some(serde_rs) = parsed.get("stack/serde.rs") {
        // version literal(s) used in serde.rs
        let mut lits = Vec::new();
        struct L<'a>(&'a mut Vec<String>);
        impl<'ast, 'a> Visit<'ast> for L<'a> {
            fn visit_lit_int(&mut self, l: &'ast syn::LitInt) {
                self.0.push(l.base10_digits().to_string());
            }
        }
        L(&mut lits).visit_file(serde_rs);
        writeln!(
            s,
            "Definition serde_int_literals : list N := [{}]%N.",
            lits.join("; ")
        )
        .unwrap();
    }
    std::fs::write(out.join("Consts.v"), s).unwrap();

    // ---------------- CmdTable.v
    let mut s = String::new();
    writeln!(s, "(* GENERATED by /verif/translator from /repo/src - do not edit *)").unwrap();
    writeln!(s, "From Coq Require Import List String.").unwrap();
    writeln!(s, "From StgV Require Import Model.GenTypes.").unwrap();
    writeln!(s, "Import ListNotations.\nOpen Scope string_scope.").unwrap();
    let mut cmd_names = Vec::new();
    let mut n_txn = 0;
    let mut n_unknown = 0;
    for (rel, file) in &parsed {
        let extra = ["patch/revspec.rs", "branchloc.rs", "stack/upgrade.rs"].contains(&rel.as_str());
        if !(rel.starts_with("cmd/") || extra) || rel.starts_with("cmd/completion") {
            continue;
        }
        let mut v = CmdVisitor::default();
        v.visit_file(file);
        let ident = rel
            .trim_end_matches(".rs")
            .replace(['/', '-'], "_");
        cmd_names.push((rel.clone(), ident.clone()));
        n_txn += v.txns.len();
        for t in &v.txns {
            for (_, b) in &t.opts {
                if b.coq().contains("BUnknown") {
                    n_unknown += 1;
                }
            }
        }
        writeln!(s, "\nDefinition {ident} : cmd_info := {{|").unwrap();
        writeln!(s, "  ci_file := {};", coq_str(rel)).unwrap();
        writeln!(
            s,
            "  ci_policies := {};",
            coq_list(&v.policies, |(f, _, p)| format!("({}, {})", coq_str(f), coq_str(p)))
        )
        .unwrap();
        writeln!(
            s,
            "  ci_txns := {};",
            coq_list(&v.txns, |t| format!(
                "(mkTxn {} {} {})",
                coq_str(&t.func),
                coq_list(&t.opts, |(n, b)| format!("({}, {})", coq_str(n), b.coq())),
                coq_str(&t.reflog)
            ))
        )
        .unwrap();
        let _ = v.txns.iter().map(|t| t.line).count();
        writeln!(s, "  ci_prechecks := {};", coq_list(&v.prechecks, guarded)).unwrap();
        writeln!(s, "  ci_writes := {};", coq_list(&v.writes, guarded)).unwrap();
        writeln!(
            s,
            "  ci_hard_checkouts := {};",
            coq_list(&v.hard_checkouts, guarded)
        )
        .unwrap();
        // prechecks and writes together, in source order (by line; stable)
        let mut seq: Vec<(usize, String, String)> = v
            .prechecks
            .iter()
            .chain(v.writes.iter())
            .map(|g| (g.line, g.func.clone(), g.name.clone()))
            .collect();
        seq.sort_by_key(|(l, _, _)| *l);
        writeln!(
            s,
            "  ci_seq := {};",
            coq_list(&seq, |(_, f, n)| format!("({}, {})", coq_str(f), coq_str(n)))
        )
        .unwrap();
        writeln!(s, "  ci_branch_arg := {} |}}.", if v.branch_arg { "true" } else { "false" }).unwrap();
    }
    writeln!(
        s,
        "\nDefinition all_cmds : list cmd_info := {}.",
        coq_list(&cmd_names, |(_, i)| i.clone())
    )
    .unwrap();
    std::fs::write(out.join("CmdTable.v"), s).unwrap();

    // ---------------- ExecOrder.v
    let mut s = String::new();
    writeln!(s, "(* GENERATED by /verif/translator from /repo/src - do not edit *)").unwrap();
    writeln!(s, "From Coq Require Import List String.").unwrap();
    writeln!(s, "Import ListNotations.\nOpen Scope string_scope.").unwrap();
    let ev = |rel: &str, func: &str| -> Vec<String> {
        parsed.get(rel).map(|f| events_of(f, func)).unwrap_or_default()
    };
    for (name, rel, func) in [
        ("execute_events", "stack/transaction/mod.rs", "execute"),
        ("checkout_events", "stack/transaction/mod.rs", "checkout"),
        ("critical_events", "signal.rs", "critical"),
        ("signal_setup_events", "signal.rs", "setup"),
        ("log_external_mods_events", "stack/stack.rs", "log_external_mods"),
        ("state_commit_events", "stack/state.rs", "commit"),
    ] {
        let events = ev(rel, func);
        writeln!(
            s,
            "Definition {name} : list string := {}.",
            coq_list(&events, |e| coq_str(e))
        )
        .unwrap();
    }
    std::fs::write(out.join("ExecOrder.v"), s).unwrap();

    // ---------------- PanicSites.v
    let mut s = String::new();
    writeln!(s, "(* GENERATED by /verif/translator from /repo/src - do not edit *)").unwrap();
    writeln!(s, "From Coq Require Import List String.").unwrap();
    writeln!(s, "Import ListNotations.\nOpen Scope string_scope.").unwrap();
    let modelled = [
        "patch/name.rs",
        "patch/locator.rs",
        "patch/range.rs",
        "patch/offset.rs",
        "patch/parse/name.rs",
        "patch/parse/locator.rs",
        "patch/parse/numbers.rs",
        "patch/parse/range.rs",
        "stack/access.rs",
        "stack/state.rs",
        "stack/stack.rs",
        "stack/transaction/mod.rs",
        "stack/transaction/builder.rs",
        "cmd/push.rs",
        "cmd/pop.rs",
        "cmd/goto.rs",
        "cmd/float.rs",
        "cmd/sink.rs",
        "cmd/delete.rs",
        "cmd/hide.rs",
        "cmd/unhide.rs",
        "cmd/commit.rs",
        "cmd/uncommit.rs",
        "cmd/clean.rs",
        "cmd/repair.rs",
        "cmd/undo.rs",
        "cmd/redo.rs",
        "cmd/reset.rs",
        "cmd/rename.rs",
        "cmd/new.rs",
        "signal.rs",
    ];
    let mut all_sites = Vec::new();
    for rel in modelled {
        if let Some(file) = parsed.get(rel) {
            let mut v = PanicVisitor {
                cur_fn: vec![],
                sites: vec![],
            };
            v.visit_file(file);
            for (f, k, t) in v.sites {
                all_sites.push((rel.to_string(), f, k, t));
            }
        }
    }
    writeln!(
        s,
        "Definition panic_sites : list (string * string * string * string) := {}.",
        coq_list(&all_sites, |(r, f, k, t)| format!(
            "({}, {}, {}, {})",
            coq_str(r),
            coq_str(f),
            coq_str(k),
            coq_str(t)
        ))
    )
    .unwrap();
    std::fs::write(out.join("PanicSites.v"), s).unwrap();

    println!(
        "files={} cmds={} txns={} unknown_opts={} panic_sites={}",
        parsed.len(),
        cmd_names.len(),
        n_txn,
        n_unknown,
        all_sites.len()
    );
}
