#!/usr/bin/env python3
"""Regression over every kept seeded change: applies seeded/<id>/patch.diff to /repo (never
committed), runs `./check <property> --tier quick`, undoes the patch, restores evidence/, and
reports whether the change is (still) caught with a concrete failing input.
usage: tools_seeded_all.py [ids...]"""
import json, os, shutil, subprocess, sys, glob

def sh(cmd, **kw):
    return subprocess.run(cmd, shell=isinstance(cmd, str), capture_output=True, text=True, **kw)

assert sh("git -C /repo status --porcelain").stdout.strip() == "", "/repo not clean"
ids = sys.argv[1:] or sorted(os.path.basename(os.path.dirname(p)) for p in glob.glob("/verif/seeded/*/patch.diff"))
shutil.rmtree("/verif/.cache/evidence-saved", ignore_errors=True)
shutil.copytree("/verif/evidence", "/verif/.cache/evidence-saved")
res = {}
try:
    for sid in ids:
        prop = sid.split("-")[0]
        a = sh(["git", "-C", "/repo", "apply", "/verif/seeded/%s/patch.diff" % sid])
        if a.returncode != 0:
            res[sid] = "patch does not apply"
            sh("git -C /repo checkout -- .")
            continue
        r = sh(["./check", prop, "--tier", "quick"], cwd="/verif")
        lines = [l for l in r.stdout.split("\n") if l.startswith("VIOLATION")]
        with_input = [l for l in lines if "no-failing-input-found" not in l]
        res[sid] = "caught with failing input" if with_input else ("caught, no failing input" if lines else "MISSED")
        sh("git -C /repo checkout -- .")
        print(sid, res[sid], flush=True)
finally:
    sh("git -C /repo checkout -- . ; git -C /repo reset -q")
    shutil.rmtree("/verif/evidence", ignore_errors=True)
    shutil.copytree("/verif/.cache/evidence-saved", "/verif/evidence")
if sys.argv[1:] and os.path.exists("/verif/seeded/regression.json"):
    # a partial run updates the entries it ran and keeps the others
    allres = json.load(open("/verif/seeded/regression.json"))
    allres.update(res)
    res_out = allres
else:
    res_out = res
json.dump(res_out, open("/verif/seeded/regression.json", "w"), indent=1, sort_keys=True)
print("missed:", [k for k, v in res.items() if v != "caught with failing input"])
