import sys, json, random
sys.path.insert(0,'/verif')
from harness import common, histcheck, funcorr, gen_hist, hist
from multiprocessing import Pool
stg = common.build_stg(); driver = __import__('os').environ.get('VERIF_TRIAL_DRIVER', '/verif/ocaml/driver'); up = funcorr.unicode_dump(stg)
profiles = sys.argv[3].split(",") if len(sys.argv)>3 else ["BASIC","REORDER","COMMIT","UNDO"]
lo, hi = int(sys.argv[1]), int(sys.argv[2])
args = [(stg, driver, up, seed, profiles[seed % len(profiles)], 36, ["c01","c02","content","log","c06","prev","c20","c09","failkeeps","dirty"], "tr") for seed in range(lo,hi)]
with Pool(14) as pool:
    res = pool.map(histcheck._worker, args)
ncmd=0; kinds={}
bad=0
for r in res:
    ncmd += len(r["steps"])
    for s,e in zip(r["steps"], r["exits"]):
        if s["c"] in ("edit","rebase","squash","pick","uncommit","reset"): kinds[(s["c"],e)] = kinds.get((s["c"],e),0)+1
    if r.get("error"): print("ERROR", r["seed"], r["error"][-400:]); bad+=1
    if r["mismatch"]:
        bad+=1
        m=r["mismatch"]; print("MISMATCH seed", r["seed"], r["profile"], "step", m["step"], m["cmd"], m["diff"][:200], "impl", m["impl_exit"], "model", m["model_exit"], m["stderr"][-200:].replace("\n"," "))
    for of in r["oracle_failures"][:1]:
        if of["why"].startswith("merged-heuristic"): continue
        bad+=1
        print("ORACLE seed", r["seed"], r["profile"], of["step"], of["cmd"], of["why"][:200])
print("scenarios", len(res), "cmds", ncmd, "bad", bad, sorted(kinds.items()))
