"""run ./check logic without the Coq gate (used while a prover agent owns coq/): same harness,
coq_gate and coq_make stubbed.  usage: nogate_check.py Cxx [quick|thorough]"""
import sys, os, importlib
sys.path.insert(0, '/verif')
from harness import common, gate
gate.coq_gate = lambda ctx, prop_file=None, need_extract=True: []
common.coq_make = lambda targets, timeout=0: (True, "")
common.EVIDENCE = '/verif/.cache/evidence-nogate'
os.makedirs(common.EVIDENCE, exist_ok=True)
prop = sys.argv[1]; tier = sys.argv[2] if len(sys.argv) > 2 else "quick"
ctx = common.Ctx(prop, tier, int(os.environ.get("VERIF_SEED", common.DEFAULT_SEED)))
mod = importlib.import_module("harness.p_" + prop.lower())
try:
    mod.run(ctx)
except Exception:
    import traceback; traceback.print_exc()
sys.exit(common.finish(ctx, "proof"))
