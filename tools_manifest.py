#!/usr/bin/env python3
"""Regenerates MANIFEST.json from the table below (single source of truth for the
interface file)."""
import json

PROPS = ["C%02d" % i for i in range(1, 21)]

HIST_NOTE = ("Trusted: Coq kernel; translator (syn) -> Gen/*.v; ExtrOcamlBasic extraction + OCaml driver; python "
             "harness (scenario generator, canonicaliser by first-seen numbering of object ids, direct oracles); "
             "git itself (3-way merge of the region corpus, two-way read-tree, object/ref atomicity of one git "
             "process). Modelled rather than verified: the commands of Model/Cmd.v over the cell corpus with index = "
             "work tree; import/export/pick/squash/sync/fold/rebase/pull/edit are outside the model.")
HIST_TECH = "Coq proof (invariants by induction over commands) + translator tie + extracted-model history-level differential testing + direct oracles"
PROTO_NOTE = ("Trusted: Coq kernel; translator (event order of execute/checkout/critical regenerated into Gen/ExecOrder.v "
              "and compared with Model/ExpectedOrder.v by a theorem); hook 2 program points (cfg stgit_verif); python "
              "rigs (fail/kill/pause, SIGINT, git PATH shim); gix ref transaction order (updates in list order, then "
              "deletions) read from gix-ref 0.51 and validated by the crash rig. Runtime behaviour below phase "
              "granularity (inside one syscall / one git process) is not exhibited by the model (partial).")
PROTO_TECH = "Coq proof over the publication-protocol model + source-order tie + exhaustive fault/crash/signal/schedule enumeration at program points against the model"

CHECKS = {
    "C01": dict(category="proof", design_ref="DESIGN.md section 4/C01", note=HIST_NOTE, technique=HIST_TECH,
        text="Theorems: Inv (every recorded state well-formed: unique valid non-colliding names, lists = patch map, "
             "patch commits exist with one parent) holds initially and is preserved by every modelled command for all "
             "histories (C01_all_histories); opening a stack establishes the patch-ref mirror and every command keeps "
             "it; the 26 modelled commands include edit, squash, rebase, pick and uncommit with generated names. Scope "
             "exclusion stated in the theorem: `stg reset <entry> <patches>`."),
    "C02": dict(category="proof", design_ref="DESIGN.md section 4/C02", note=HIST_NOTE, technique=HIST_TECH,
        text="Theorems: in every recorded state the applied patches form a first-parent chain ending at the top "
             "(preserved by every modelled command, all histories); when a set_head transaction completes (also on a "
             "conflict halt) the branch is the recorded head = the transaction's head, or the roll-back failed and "
             "nothing moved; a conflicting patch is an empty commit on top; the base is preserved by the 15 commands "
             "that must not move it."),
    "C03": dict(category="proof", design_ref="DESIGN.md section 4/C03", note=PROTO_NOTE, technique=PROTO_TECH,
        text="Theorem C03_fault_atomic: outside three named known classes a failure at any program point yields exit 2 "
             "with refs and checked-out tree unchanged; refs move only in the final reference transaction. Every "
             "corpus command x every program point (and every git invocation via a PATH shim) is run against the "
             "real stg and compared with the model's prediction; the known classes are genuine findings F11/F24/F25. "
             "Commands that fail on their own are covered by the history-level pass (exit 2 leaves the refs alone, also "
             "on branches moved by plain git and with dirty trees) and by the dirt matrix (harness/dirtmatrix.py: 4 "
             "stack arrangements x 6 kinds of local change x 47 commands on the real repository; exit 1 / 2 must leave "
             "refs, HEAD, index entries and every work-tree file byte for byte)."),
    "C04": dict(category="proof", design_ref="DESIGN.md section 4/C04", note=PROTO_NOTE, technique=PROTO_TECH,
        text="Theorems: after a kill at any program point or after any prefix of the ordered single-ref operations the "
             "state ref is the old, the external-modification or the new state; no ref holds a foreign value; the "
             "branch moves only after the state ref. Real crashes (SIGKILL at every point, every ref-edit prefix) are "
             "followed by fsck, stg series, stg repair, stg reset --hard and the C01/C02 oracles; the `stg branch` "
             "sub-commands, which write refs outside any transaction, are killed just before and just after every "
             "git invocation (no stack may be stranded under a branch that does not exist)."),
    "C05": dict(category="proof", design_ref="DESIGN.md section 4/C05", note=HIST_NOTE, technique=HIST_TECH,
        text="Whole-command theorems: `stg undo` on a stack whose newest entry is an ordinary operation restores the state "
             "recorded by the entry before it (three lists, every patch's commit, head, branch) and appends to the log; "
             "`stg redo` after it brings back exactly the state the undo took away; for every modelled stg command other "
             "than undo / redo that succeeds and records one entry, a following undo restores the stack it found "
             "(C05_undo_restores_logged_state, _redo_restores_undone_state, _undo_undoes_step, non-vacuity witness); `undo -n 2` reaches the same stack as two single undos (C05_undo_2_is_two_undos). "
             "Theorems over the abstract log: undo -n k = k-th state of the effective timeline, = k single undos; "
             "redo -n k = k-th entry of the redo stack, refused after any other operation; find_undo_state over the "
             "object store IS that walk; reset_to_state installs exactly the logged state. Direct oracle with its own "
             "reading of the log for undo / redo and for `stg reset <entry> [<patches>]` (a full reset restores the "
             "entry exactly; a partial one gives each named patch the recorded commit and, when it no longer existed, "
             "the recorded hidden-ness); generator macros redo_chain, extmods, reset_deleted."),
    "C06": dict(category="proof", design_ref="DESIGN.md section 4/C06", note=HIST_NOTE, technique=HIST_TECH,
        text="Theorems: parent grouping terminates, keeps <= MAX_PARENTS parents and every original parent reachable; "
             "a new state commit reaches its previous state and every head/top/unapplied/hidden commit not already "
             "recorded by the previous state; every command keeps every patch of every logged state reachable from "
             "refs/stacks/<b> (Inv6, all histories); the log is append-only except for log --clear; gc that keeps the "
             "closure of the refs keeps every logged patch."),
    "C07": dict(category="proof", design_ref="DESIGN.md section 4/C07", note=HIST_NOTE, technique=HIST_TECH,
        text="Whole-command round trip C07_pop_push_roundtrip: `pop -n k; push -n k` gives back the same commits, lists, branch and work tree (macro pop_push_roundtrip + oracle clause on the real repository). "
             "Theorems: list results of reorder/push/pop/delete are the documented ones; the four tree shortcuts, the "
             "temp-index path (git apply) and the work-tree merge all return the cell-wise three-way merge; "
             "non-overlapping changes merge cleanly and commute; already-present changes become empty; the temp-index "
             "cache stays coherent (fix F7); pop+push reuses the same commits; the --merged heuristic is proved to lose "
             "a patch's change in the model (C07_merged_heuristic_refuted, known finding F37, corpus scenario). Direct "
             "oracles independent of the model: content (cell-wise three-way merge, with --merged's own definition "
             "recomputed) and order (named patches adjacent at the requested place, others keep their relative order)."),
    "C08": dict(category="proof", design_ref="DESIGN.md section 4/C08",
        text="Theorems on the stack / command model, where a commit carries the author name, e-mail, date and message "
             "as one opaque identity plus the message text: commit objects are immutable under every command; after "
             "push, pop, goto, float, sink, delete, hide, unhide, rename, commit, uncommit, clean, spill and refresh every "
             "patch carries the identity of a patch before (its own, or under rename that of the renamed patch) or, under "
             "uncommit, is an existing commit taken as it is; rename keeps the very commit; undo / redo / reset re-create "
             "nothing; new gives the requested identity and leaves the others; a refresh that changes nothing creates no "
             "commit; stg edit -m changes only the named patch's identity and an edit that changes nothing runs no "
             "transaction; stg squash yields the requested identity for the squashed patch and keeps all others. "
             "Text side (Model/Encoding.v: message_ex, Message::encode_with, commit_with_options, author_strict over "
             "utf-8 / latin-1 / windows-1252 labels and four i18n.commitEncoding settings): undeclared and utf-8 commits "
             "keep their bytes exactly; every decodable message outside the class of F40 is shown by git with the same "
             "text after the re-creation (UTF-8 round trip proved arithmetically); an unknown label refuses; F40 (latin-1 "
             "label with bytes 0x80-0x9f: encoding_rs decodes windows-1252) is proved to break it and is a known "
             "finding. The author side (recreate_name: author_strict + the encoding written): names are kept for "
             "unset / UTF-8 commit encodings and, since fix F44, written in a configured single-byte encoding so that "
             "git shows the same name (C08_author_kept, C08_author_encoded_with_commit_encoding). "
             "Re-creation correspondence: generated commits (message AND author name in the declared encoding) are re-created by the real stg push under each "
             "commit encoding and refusal, header, bytes and git's decoding are compared with the extracted model. "
             "End-to-end direct oracle on commits with legacy encodings (ISO-8859-1, windows-1252, valid-UTF-8 "
             "bytes under a declared single-byte encoding), odd identities, time zones and git notes through every "
             "re-creating operation (fixes F15, F28).",
        note="Partial: encodings other than utf-8 / latin-1 / windows-1252 (other encoding_rs tables, multi-byte "
             "encodings), glibc iconv as git's decoder and gpg signing are outside the model and judged by the end-to-end "
             "oracle only; edit's interactive path is "
             "covered by the scripted extras scenarios. Trusted: Coq kernel; history-level correspondence harness; extraction of Model/Encoding.v "
             "(ExtrOcamlBasic only).",
        technique="Coq proof (identity carried by every re-creating operation; shown text kept by the re-encoding) + history-level and re-creation differential testing + "
                  "end-to-end decoded author/date/message/notes oracle"),
    "C09": dict(category="proof", design_ref="DESIGN.md section 4/C09", note=HIST_NOTE, technique=HIST_TECH,
        text="Whole-command: whichever modelled command halts with status 3 having recorded one entry, `stg undo --hard` restores the stack it found with a clean index and the head's work tree (C09_undo_hard_undoes_halted_step, all commands, non-vacuity witness with real unmerged entries). "
             "Theorems: a conflict halt keeps every earlier push; halted transactions never exit 0; with conflicts "
             "disallowed nothing is touched; guarded commands and undo without --hard refuse while the index is "
             "unmerged; source ties: check_conflicts is called unguarded in push/pop/goto/float/sink/delete/new/"
             "squash/spill and CONFLICT_ERROR = 3; for all 23 modelled commands the transaction-builder options in the "
             "current source (conflict policy, discard_changes, use_index_and_worktree, set_head, allow_bad_head) equal "
             "the ones the model uses. The configuration variable stgit.push.allow-conflicts is part of the model's "
             "world (w_apc; every transaction takes allow_push_conflicts from the --conflicts flag or else from it, as "
             "the source does): while it is false no stg command that was not given --conflicts=allow leaves unmerged "
             "entries behind, stg commands never change it, hence for whole sessions "
             "(C09_config_disallow_keeps_index_merged / _stg_keeps_config / _config_disallow_session). Direct oracles: "
             "conflict-halt shape, refusal while unmerged, a halt keeps every patch in exactly one list (the patches a "
             "squash was given excepted), no unmerged entries while the variable is false (generator profile NOCONF "
             "switches it off and on around overlapping patches)."),
    "C10": dict(category="proof", design_ref="DESIGN.md section 4/C10", note=HIST_NOTE, technique=HIST_TECH,
        text="Theorems: the two-way merge model keeps every locally modified file or refuses; a successful refresh of "
             "the top patch leaves the work tree exactly as it was, while the same statement for `stg refresh -p <applied "
             "patch below the top>` is refuted in the model and on the binary (a patch above that sets the region back "
             "applies cleanly: the file loses what the user wrote; known finding F43, corpus scenario); source ties: "
             "discard_changes only under --hard in every command, read-tree --reset only in reset --hard and behind "
             "fold's cleanliness check, cleanliness pre-checks present in push/pop/goto/float/sink. History-level "
             "differential testing with dirty trees (--keep and not) plus a direct oracle comparing the content of "
             "every modified / untracked file around each command, dirty probes for commands outside the model, and the "
             "dirt matrix (harness/dirtmatrix.py: 4 stack arrangements x 6 kinds of local change - unstaged, staged, "
             "untracked in the way of a created file - x 47 commands on the real repository; the local content must "
             "survive). Partial: merge-recursive's own refusal and untracked files are judged by the direct oracles only."),
    "C11": dict(category="proof", design_ref="DESIGN.md section 4/C11", note=PROTO_NOTE, technique=PROTO_TECH,
        text="Theorems: with a compare-and-swap on the state commit seen at LOAD time no interleaving loses an update "
             "(all 20 schedules, symbolic values); the log stays linear under every schedule; with the re-read value "
             "that execute() really uses a losing schedule exists (C11_cas_on_reread_loses_updates = known finding "
             "F9). All 20 interleavings are realised on the real stg with pause points and compared with the model; the "
             "other publication path (log_external_mods on a branch moved by plain git) is raced separately: one "
             "process held between reading and publishing the state ref while another completes (direct oracle)."),
    "C12": dict(category="proof", design_ref="DESIGN.md section 4/C12", note=HIST_NOTE, technique=HIST_TECH,
        text="Whole-command round trips C12_commit_uncommit_roundtrip and C12_uncommit_commit_roundtrip: `stg commit -n k` then `stg uncommit <the same k "
             "names>` gives back the same commits under the same names in the same order, the same unapplied and hidden "
             "patches, branch / index / work tree untouched (generator macro commit_roundtrip and a direct oracle clause "
             "read the same off the real repository). "
             "Theorems: committing bottom-most patches creates no object and keeps the head; uncommit never moves "
             "branch, index or work tree and creates no commit; the downward walk refuses merge/root commits and finds "
             "exactly the commits committed before; source tie: uncommit runs with set_head(false), "
             "use_index_and_worktree(false)."),
    "C13": dict(category="proof", design_ref="DESIGN.md section 4/C13", note=HIST_NOTE, technique=HIST_TECH,
        text="Whole-command theorems: repair on a consistent stack (branch = recorded head = top, no unapplied / hidden "
             "patch's commit on the walked path) changes nothing but the log - lists, every patch's commit, head, branch, "
             "index, work tree, patch refs - for every world whose store is acyclic and for every world reachable by "
             "commands (C13_repair_consistent_noop, _reachable); the age invariant of the store is proved for every command "
             "(C13_plain_parents_older_invariant); repair is idempotent: a second run succeeds and changes nothing (C13_repair_idempotent, _reachable); "
             "the first form without the age condition is refuted. "
             "Theorems: repair_appliedness is a permutation; repair never touches index/work tree; on a consistent "
             "stack the first-parent walk finds exactly the applied patches; walked names are patches, patchified "
             "commits are single-parent non-patches; source tie: RequireInitialized, is_protected first, no work tree. "
             "Fix F23 (branch moved back to the old base under a merge) is modelled; F6 is a known finding."),
    "C14": dict(category="proof", design_ref="DESIGN.md section 4/C14",
        text="Coq theorems over the transcription of PatchName::{validate,from_str,make,uniquify,collides} and the "
             "patch_name parser: validity (git ref component), totality (no panic), length bound, uniqueness and "
             "termination of uniquify, agreement of the two validity definitions, soundness of the exhaustive "
             "Unicode table check; the names `stg uncommit` generates from commit messages (make_patchnames as the "
             "command model runs it) are one valid name per commit, colliding with no patch of the stack - hidden ones "
             "included - and with no other generated name, and the generation never panics (C14_uncommit_names_fresh).",
        note="Trusted: Coq kernel; translator; ExtrOcamlBasic extraction + OCaml driver; python harness; "
             "to_lowercase modelled per scalar value (final-sigma position abstracted); git's ref rules "
             "transcribed (validated against git check-ref-format each run).",
        technique="Coq proof (induction, invariants) + exhaustive Unicode table check + extracted-model differential testing"),
    "C15": dict(category="proof", design_ref="DESIGN.md section 4/C15",
        text="Theorems over the transcription of the winnow locator/range parsers, display, disambiguation and "
             "resolve_name / resolve_names(_contiguous): an existing name always wins; resolution never panics and "
             "never names a foreign patch; display/parse round trip; range expansion has no duplicates, stays inside "
             "the allowed list and is a contiguous interval (reversed only by resolve_names).",
        note="Trusted: Coq kernel; hand transcription of winnow alt/opt/repeat semantics (validated function-level "
             "against stg verif-eval); gix Prefix::from_hex = 4..40 hex digits.",
        technique="Coq proof + extracted-model function-level differential testing + round-trip and end-to-end oracles"),
    "C16": dict(category="proof", design_ref="DESIGN.md section 4/C16",
        text="Theorems: opening a stack with AllowUninitialized/RequireInitialized leaves a mirrored repository "
             "unchanged and never initialises; source tie: the regenerated command table shows every inspection "
             "command and the shared revision-spec resolver use only those policies, run no transaction and call "
             "nothing that writes (log: clear_state_log only under --clear). Direct oracle: full snapshot equality "
             "around every inspection command line in every repository state of the corpus (incl. after "
             "branch --clone, fix F10).",
        note="Trusted: Coq kernel; translator (policies / write calls per command file); git subprocesses spawned by "
             "inspection commands are read-only by git's contract.",
        technique="Coq proof + regenerated command-table obligations + snapshot-equality enumeration"),
    "C17": dict(category="proof", design_ref="DESIGN.md section 4/C17",
        text="Theorems about the executable model of the three ref namespaces and the config sections keyed by "
             "branch name (Model/Branch.v: deinitialize, ensure_patch_refs, create, switch, describe, clone, rename, "
             "delete, cleanup, protect, unprotect): create gives the new branch the parent's head, an EMPTY stack "
             "(replacing whatever refs plain git left under that name), its own two config sections and nothing "
             "else; switch changes only HEAD, describe only the named description; "
             "deinitialize removes exactly the named branch's stack refs and stgit config; clone/rename give the new "
             "name the SAME state commit (all three lists, every patch commit, the log) and exactly its patch refs and "
             "leave nothing under the old name; refused sub-commands change nothing; unrelated branches (shared "
             "prefixes, dots, slashes) are never touched; protected branches refuse; transactions with "
             "use_index_and_worktree(false) never change index or work tree. Source ties: every --branch-capable "
             "command runs its transactions without index/work tree once --branch is present; is_protected precedes "
             "the first write in delete, cleanup, rebase, pull, repair; call order in clone/rename (fixes F30, F31, "
             "F33). The '.stgit' twin-name hazard is proved present in the model (known finding F32).",
        note="Trusted: Coq kernel; translator (call order, builder options, branch_arg per command file); git's own "
             "behaviour (branch --move/--copy refusals, config section rename/copy, ref deletion) is modelled, not "
             "verified; extraction of Model/Branch.v (ExtrOcamlBasic) and ocaml/bdriver.ml; the work-tree side of "
             "clone/delete (git checkout) is judged by the direct oracle only.",
        technique="Coq proof + regenerated command-table obligations + extracted-model differential testing of "
                  "stg branch sub-commands + whole-repository before/after oracles"),
    "C18": dict(category="proof", design_ref="DESIGN.md section 4/C18",
        text="Theorems about the byte-level model of the text side of export/import (Model/Export.v: description "
             "split and template specialisation; split_patch, Headers::parse_message, parse_name_email, message "
             "assembly): splitting is a partition at the first separator line; the default template renders to a "
             "fixed text; for every description whose first line is a usable subject and whose body has no "
             "separator-like line and no header-like or indented first line, import reads back the same subject, "
             "author name, author e-mail and body (equal up to trailing blank lines) and hands the untouched rest to "
             "git apply; non-vacuity example; the three shapes where the full statement is false of the faithful model "
             "are proved refuted with witnesses and replayed on the implementation (known findings F13, F14, F35).",
        note="Partial: git diff-tree --binary / git apply (the diff itself, tree equality), gzip/bzip2/tar decoding and "
             "the mbox form (git mailsplit/mailinfo) are outside the model and judged by the end-to-end direct oracle "
             "only (round trips through series / files / gz / bz2 / tar forms, and a second export into the same, "
             "since polluted, directory that must reproduce the first byte for byte). Trusted: Coq kernel; hook 3 (stg verif-eval splitpatch/parsemsg/nameemail/specialize); extraction "
             "of Model/Export.v (ExtrOcamlBasic) and ocaml/edriver.ml.",
        technique="Coq proof (round-trip theorem + refuted witnesses) + extracted-model function-level differential "
                  "testing + byte-for-byte comparison of real exported files and imported patches with the model + "
                  "export/import round-trip oracle over series, file, gzip, bzip2, tar, tar.gz, tar.bz2 and mbox forms"),
    "C19": dict(category="proof", design_ref="DESIGN.md section 4/C19", note=PROTO_NOTE, technique=PROTO_TECH,
        text="Theorems: one SIGINT before publication leaves the refs unchanged; inside the critical section the "
             "publication completes (refs, index, work tree of the completed command) with status 130; a roll-back "
             "is never reported; source tie: shape of signal::critical and of the handler. Fix F12 modelled. SIGINT is "
             "delivered at every program point of every corpus command; a process-group interrupt that also kills the "
             "git child writing the signed state commit inside the critical section is delivered at every git "
             "invocation of pop / goto (direct oracle: refs, index and work tree all old or all new)."),
    "C20": dict(category="proof", design_ref="DESIGN.md section 4/C20", note=HIST_NOTE, technique=
        "Coq proof (no-panic by per-operation preconditions) + regenerated panic-site classification + "
        "history-level differential testing + command-line fuzzing (search)",
        text="Theorems: every non-panic outcome maps to 0/1/2/3 with the constants of the current source; name "
             "derivation and locator/range resolution never panic; no modelled command panics from a well-formed "
             "world (all commands except stg repair = known finding F6 and a pop shape the command line cannot "
             "produce); every potential panic site of the modelled modules is in the reviewed list (regenerated). "
             "Commands outside the model are searched by a command-line fuzzer over all sub-commands, options, "
             "boundary arguments and repository states, 71 hand-written boundary probes and 155 generated ones "
             "(every patch-taking command x the hidden patch alone / beside applied and unapplied patches / as a "
             "range end) on a fixed stack shape (not a proof)."),
}

NA_REASON = "check under construction in this build phase (see DESIGN.md section 8); no claim made yet"


def main():
    checks = []
    for p in PROPS:
        if p in CHECKS:
            c = CHECKS[p]
            checks.append({
                "property_id": p,
                "quick_cmd": "./check %s --tier quick" % p,
                "thorough_cmd": "./check %s --tier thorough" % p,
                "evidence_file": "/verif/evidence/%s.json" % p,
                "replay_cmd_template": "./check %s --replay {path}" % p,
                "engine": "coq-model",
                "level_claimed": {"category": c["category"], "text": c["text"], "design_ref": c["design_ref"]},
                "level_note": c["note"],
                "technique": c["technique"],
            })
    manifest = {
        "version": 1,
        "setup_cmd": "./setup.sh",
        "hooks": {
            "guard": "stgit_verif",
            "enable": "RUSTFLAGS='--cfg stgit_verif' CARGO_TARGET_DIR=/verif/.cache/target cargo build --offline (from /repo)",
            "baseline_off_cmd": "cd /repo && cargo test --workspace --no-fail-fast --offline",
            "source_commits": json.load(open("hooks.json"))["source_commits"],
            "add_only": True,
        },
        "engines": [
            {"name": "coq-model", "path": "/verif/coq",
             "serves_properties": sorted(CHECKS),
             "kind_free_text": "Rocq/Coq 8.16.1 development (Model/, Gen/ regenerated by /verif/translator, Proofs/, "
                               "Properties/), extracted to OCaml (ocaml/driver) and compared with the real stg by "
                               "/verif/harness (python3)"},
        ],
        "checks": checks,
        "not_applicable": [{"property_id": p, "reason": NA_REASON} for p in PROPS if p not in CHECKS],
        "notes": "All checks: ./check <id> [--tier quick|thorough] [--replay file]. Known findings: known_findings.json.",
    }
    with open("MANIFEST.json", "w") as f:
        json.dump(manifest, f, indent=1)
        f.write("\n")


if __name__ == "__main__":
    main()
