(* Correspondence driver: speaks the same line protocol as `stg verif-eval`, but answers
   from the model extracted from Coq (model.ml).  One request per line on stdin:
     <id> TAB <fn> TAB <arg> ...
   Strings travel as hex of their UTF-8 bytes ("-" is the empty string / empty list). *)

open Model

exception Bad_request

(* ---- conversions between OCaml ints and the extracted binary numbers ---- *)

let rec pos_of_int (i : int) : positive =
  if i = 1 then XH
  else if i land 1 = 0 then XO (pos_of_int (i lsr 1))
  else XI (pos_of_int (i lsr 1))

let n_of_int (i : int) : n = if i = 0 then N0 else Npos (pos_of_int i)

let rec int_of_pos (p : positive) : int =
  match p with XH -> 1 | XO q -> 2 * int_of_pos q | XI q -> (2 * int_of_pos q) + 1

let int_of_n (x : n) : int = match x with N0 -> 0 | Npos p -> int_of_pos p

(* arbitrary-size decimal string -> n (for limits and counts that may exceed 2^62) *)
let n_of_decimal (s : string) : n =
  let ten = n_of_int 10 in
  let acc = ref N0 in
  String.iter
    (fun c -> acc := N.add (N.mul !acc ten) (n_of_int (Char.code c - 48)))
    s;
  !acc

let rec nat_of_int (i : int) : nat = if i <= 0 then O else S (nat_of_int (i - 1))

let nth (l : string list) (i : int) : string =
  match List.nth_opt l i with Some x -> x | None -> raise Bad_request

(* ---- hex / UTF-8 ---- *)

let unhex_bytes (s : string) : string =
  if s = "-" then ""
  else begin
    let len = String.length s / 2 in
    let b = Bytes.create len in
    for i = 0 to len - 1 do
      Bytes.set b i (Char.chr (int_of_string ("0x" ^ String.sub s (2 * i) 2)))
    done;
    Bytes.to_string b
  end

let hex_of_bytes (s : string) : string =
  if s = "" then "-"
  else begin
    let b = Buffer.create (2 * String.length s) in
    String.iter (fun c -> Buffer.add_string b (Printf.sprintf "%02x" (Char.code c))) s;
    Buffer.contents b
  end

let utf8_decode (s : string) : int list =
  let n = String.length s in
  let rec go i acc =
    if i >= n then List.rev acc
    else
      let c = Char.code s.[i] in
      if c < 0x80 then go (i + 1) (c :: acc)
      else if c < 0xE0 then
        go (i + 2) ((((c land 0x1F) lsl 6) lor (Char.code s.[i + 1] land 0x3F)) :: acc)
      else if c < 0xF0 then
        go (i + 3)
          ((((c land 0x0F) lsl 12)
           lor ((Char.code s.[i + 1] land 0x3F) lsl 6)
           lor (Char.code s.[i + 2] land 0x3F))
          :: acc)
      else
        go (i + 4)
          ((((c land 0x07) lsl 18)
           lor ((Char.code s.[i + 1] land 0x3F) lsl 12)
           lor ((Char.code s.[i + 2] land 0x3F) lsl 6)
           lor (Char.code s.[i + 3] land 0x3F))
          :: acc)
  in
  go 0 []

let utf8_encode (cps : int list) : string =
  let b = Buffer.create 16 in
  List.iter
    (fun c ->
      if c < 0x80 then Buffer.add_char b (Char.chr c)
      else if c < 0x800 then begin
        Buffer.add_char b (Char.chr (0xC0 lor (c lsr 6)));
        Buffer.add_char b (Char.chr (0x80 lor (c land 0x3F)))
      end
      else if c < 0x10000 then begin
        Buffer.add_char b (Char.chr (0xE0 lor (c lsr 12)));
        Buffer.add_char b (Char.chr (0x80 lor ((c lsr 6) land 0x3F)));
        Buffer.add_char b (Char.chr (0x80 lor (c land 0x3F)))
      end
      else begin
        Buffer.add_char b (Char.chr (0xF0 lor (c lsr 18)));
        Buffer.add_char b (Char.chr (0x80 lor ((c lsr 12) land 0x3F)));
        Buffer.add_char b (Char.chr (0x80 lor ((c lsr 6) land 0x3F)));
        Buffer.add_char b (Char.chr (0x80 lor (c land 0x3F)))
      end)
    cps;
  Buffer.contents b

let str_of_hex (h : string) : n list = List.map n_of_int (utf8_decode (unhex_bytes h))
let hex_of_str (s : n list) : string = hex_of_bytes (utf8_encode (List.map int_of_n s))

let split_char (c : char) (s : string) : string list = String.split_on_char c s

let strs_of_hexlist (h : string) : n list list =
  if h = "-" then [] else List.map str_of_hex (split_char ',' h)

let hexlist_of_strs (l : n list list) : string =
  if l = [] then "-" else String.concat "," (List.map hex_of_str l)

(* ---- the to_lowercase oracle: table dumped from the real binary ---- *)

let lower_tbl : (int, int list) Hashtbl.t = Hashtbl.create 4096

let load_unicode (path : string) : unit =
  let ic = open_in path in
  (try
     while true do
       let line = input_line ic in
       match split_char ' ' line with
       | [ cp; _flags; lower ] ->
           let cp = int_of_string ("0x" ^ cp) in
           let lower =
             List.map (fun h -> int_of_string ("0x" ^ h)) (split_char ',' lower)
           in
           Hashtbl.replace lower_tbl cp lower
       | _ -> ()
     done
   with End_of_file -> ());
  close_in ic

let lower_s (s : n list) : n list =
  List.concat_map
    (fun c ->
      let ci = int_of_n c in
      match Hashtbl.find_opt lower_tbl ci with
      | Some l -> List.map n_of_int l
      | None -> [ c ])
    s

(* ---- locators ---- *)

let rec z_to_string (z : z) : string =
  String.concat "" (List.map (fun c -> String.make 1 (Char.chr (int_of_n c))) (dec_of_Z z))

let n_to_string (x : n) : string =
  String.concat "" (List.map (fun c -> String.make 1 (Char.chr (int_of_n c))) (dec_of_N x))

let show_atoms (offs : n list) : string =
  let atoms, _ = offset_atoms offs in
  let one = function
    | APlus None -> "+_"
    | APlus (Some x) -> "+" ^ n_to_string x
    | ATilde None -> "~_"
    | ATilde (Some x) -> "~" ^ n_to_string x
  in
  "[" ^ String.concat " " (List.map one atoms) ^ "]"

let show_loc (l : ploc) : string =
  let id =
    match l.l_id with
    | IdName nm -> "name:" ^ hex_of_str nm
    | IdBase -> "base"
    | IdTop -> "top"
    | IdBelowLast None -> "belowlast:_"
    | IdBelowLast (Some z) -> "belowlast:" ^ z_to_string z
    | IdBelowTop None -> "belowtop:_"
    | IdBelowTop (Some x) -> "belowtop:" ^ n_to_string x
  in
  "(" ^ id ^ " " ^ show_atoms l.l_offs ^ ")"

let show_opt_loc = function Some l -> show_loc l | None -> "_"

let show_range = function
  | RSingle l -> "single" ^ show_loc l
  | RRange (b, e) -> "range(" ^ show_opt_loc b ^ " " ^ show_opt_loc e ^ ")"

let lerr_name = function
  | EPatchNotKnown -> "PatchNotKnown"
  | EInvalidPatchIndex -> "InvalidPatchIndex"
  | EInvalidPatchOffset -> "InvalidPatchOffset"
  | EInvalidOffsetFrom -> "InvalidOffsetFrom"
  | EBaseNeedsOffset -> "BaseNeedsOffset"
  | EBaseNeedsPositiveOffset -> "BaseNeedsPositiveOffset"
  | ENoLastPatch -> "NoLastPatch"
  | EAmbiguousCommitId -> "AmbiguousCommitId"
  | EPatchNotAllowed -> "PatchNotAllowed"
  | EDuplicate -> "Duplicate"
  | ENotContiguous -> "NotContiguous"
  | EBoundaryOrder -> "BoundaryOrder"

let rconstraint_of = function
  | "All" -> RCAll
  | "AllWithAppliedBoundary" -> RCAllApplied
  | "Visible" -> RCVisible
  | "VisibleWithAppliedBoundary" -> RCVisibleApplied
  | "Applied" -> RCApplied
  | "Unapplied" -> RCUnapplied
  | "Hidden" -> RCHidden
  | _ -> raise Not_found

let ascii_str (s : string) : n list =
  List.init (String.length s) (fun i -> n_of_int (Char.code s.[i]))

let view_of (a : string) (u : string) (h : string) (oids : string) : sview =
  let a = strs_of_hexlist a and u = strs_of_hexlist u and h = strs_of_hexlist h in
  let oid_list = if oids = "-" then [] else String.split_on_char ',' oids in
  let all = a @ u @ h in
  let tbl = List.mapi (fun i nm -> (nm, ascii_str (List.nth oid_list i))) all in
  { v_applied = a; v_unapplied = u; v_hidden = h;
    v_oidhex = (fun nm -> match List.assoc_opt nm tbl with Some o -> o | None -> []) }

(* ---- scenarios: a stateful world driven by one command per line ---- *)

let rec int_of_nat (x : nat) : int = match x with O -> 0 | S y -> 1 + int_of_nat y

let rec z_of_int (i : int) : z =
  if i = 0 then Z0 else if i > 0 then Zpos (pos_of_int i) else Zneg (pos_of_int (-i))

let z_of_decimal (s : string) : z =
  if String.length s > 0 && s.[0] = '-' then
    (match n_of_decimal (String.sub s 1 (String.length s - 1)) with
     | N0 -> Z0 | Npos p -> Zneg p)
  else (match n_of_decimal s with N0 -> Z0 | Npos p -> Zpos p)

let cur_world : world ref = ref (init_world [])

let cells_of (s : string) : n list =
  if s = "-" then [] else List.map n_of_decimal (split_char ',' s)

let csv_ints (l : int list) = if l = [] then "-" else String.concat "," (List.map string_of_int l)

let show_oids (l : oid list) = csv_ints (List.map int_of_nat l)

let show_state (st : sstate) : string =
  Printf.sprintf "prev=%s;head=%d;A=%s;U=%s;H=%s;P=%s"
    (match st.s_prev with Some p -> string_of_int (int_of_nat p) | None -> "-")
    (int_of_nat st.s_head)
    (hexlist_of_strs st.s_applied) (hexlist_of_strs st.s_unapplied) (hexlist_of_strs st.s_hidden)
    (if st.s_patches = [] then "-"
     else String.concat "," (List.map (fun (nm, o) -> hex_of_str nm ^ "=" ^ string_of_int (int_of_nat o)) st.s_patches))

let show_msg = function
  | MOp -> "op"
  | MUndo z -> "undo" ^ z_to_string z
  | MRedo z -> "redo" ^ z_to_string z
  | MGroup -> "group"

let dump_world (w : world) : string =
  let b = Buffer.create 1024 in
  Buffer.add_string b
    (Printf.sprintf "branch=%d stack=%s wt=%s unmerged=%d prefs=%s objs="
       (int_of_nat w.w_branch)
       (match w.w_stack with Some o -> string_of_int (int_of_nat o) | None -> "-")
       (csv_ints (List.map int_of_n w.w_wt))
       (if w.w_unmerged then 1 else 0)
       (if w.w_prefs = [] then "-"
        else String.concat "," (List.map (fun (nm, o) -> hex_of_str nm ^ "=" ^ string_of_int (int_of_nat o)) w.w_prefs)));
  List.iteri
    (fun i c ->
      Buffer.add_string b
        (Printf.sprintf "%d:p=%s:t=%s:m=%d:k=%s:s=%s|" i (show_oids c.c_parents)
           (csv_ints (List.map int_of_n c.c_tree)) (int_of_n c.c_meta) (show_msg c.c_msg)
           (match c.c_state with Some st -> show_state st | None -> "-")))
    w.w_objs;
  Buffer.contents b

let opt_strs (s : string) : n list list option = if s = "_" then None else Some (strs_of_hexlist s)
let opt_z (s : string) : z option = if s = "_" then None else Some (z_of_decimal s)
let opt_n (s : string) : n option = if s = "_" then None else Some (n_of_decimal s)
let has_flag (flags : string) (f : string) : bool = List.mem f (split_char ',' flags)
let opt_conf (s : string) : bool option =
  match s with "allow" -> Some true | "disallow" -> Some false | _ -> None

let decode_cmd (f : string list) : cmd =
  let a i = nth f i in
  match a 0 with
  | "init" -> CInit
  | "new" -> CNew (str_of_hex (a 1), n_of_decimal (a 2), ascii_str ("x" ^ a 2 ^ " msg"))
  | "refresh" ->
      CRefresh (match List.nth_opt f 1 with
                | Some x when x <> "_" -> Some (str_of_hex x)
                | _ -> None)
  | "push" ->
      let fl = a 3 in
      CPush (opt_strs (a 1), opt_z (a 2), has_flag fl "all", has_flag fl "reverse",
             has_flag fl "noapply", has_flag fl "set-tree", has_flag fl "merged",
             has_flag fl "keep", opt_conf (a 4))
  | "pop" ->
      let fl = a 3 in
      CPop (opt_strs (a 1), opt_z (a 2), has_flag fl "all", has_flag fl "keep", has_flag fl "spill")
  | "goto" ->
      let fl = a 2 in
      CGoto (str_of_hex (a 1), has_flag fl "keep", has_flag fl "merged", opt_conf (a 3))
  | "float" ->
      let fl = a 2 in
      CFloat (strs_of_hexlist (a 1), has_flag fl "noapply", has_flag fl "keep")
  | "sink" ->
      let fl = a 3 in
      let tgt =
        match a 2 with
        | "_" -> None
        | t ->
            let above = t.[0] = 'a' in
            Some (above, str_of_hex (String.sub t 2 (String.length t - 2)))
      in
      CSink (opt_strs (a 1), tgt, has_flag fl "nopush", has_flag fl "keep")
  | "delete" ->
      let fl = a 2 in
      CDelete (opt_strs (a 1), has_flag fl "top", has_flag fl "all", has_flag fl "applied",
               has_flag fl "unapplied", has_flag fl "hidden", has_flag fl "spill", opt_conf (a 3))
  | "hide" -> CHide (strs_of_hexlist (a 1))
  | "unhide" -> CUnhide (strs_of_hexlist (a 1))
  | "rename" -> CRename ((if a 1 = "_" then None else Some (str_of_hex (a 1))), str_of_hex (a 2))
  | "commit" ->
      let fl = a 3 in
      CCommit (opt_strs (a 1), opt_n (a 2), has_flag fl "all", has_flag fl "allow-empty")
  | "uncommit" -> CUncommit (opt_n (a 1), strs_of_hexlist (a 2))
  | "clean" -> let fl = a 1 in CClean (has_flag fl "applied", has_flag fl "unapplied")
  | "spill" -> CSpill
  | "undo" -> CUndo (z_of_decimal (a 1), has_flag (a 2) "hard")
  | "redo" -> CRedo (n_of_decimal (a 1), has_flag (a 2) "hard")
  | "reset" ->
      CReset ((if a 1 = "_" then None else Some (nat_of_int (int_of_string (a 1)))),
              opt_strs (a 2), has_flag (a 3) "hard")
  | "repair" -> CRepair
  | "logclear" -> CLogClear
  | "edit" ->
      CEdit ((if a 1 = "_" then None else Some (str_of_hex (a 1))), n_of_decimal (a 2),
             ascii_str ("x" ^ a 2 ^ " edited"))
  | "squash" ->
      CSquash (strs_of_hexlist (a 1), str_of_hex (a 2), n_of_decimal (a 3), ascii_str ("x" ^ a 3 ^ " squashed"))
  | "rebase" -> (
      match a 1 with
      | "patch" -> CRebase (TPatch (str_of_hex (a 2)))
      | "base" -> CRebase (TBaseAncestor (nat_of_int (int_of_string (a 2))))
      | "head" -> CRebase (THeadAncestor (nat_of_int (int_of_string (a 2))))
      | _ -> raise Bad_request)
  | "pick" -> (
      let nm = if a 3 = "_" then None else Some (str_of_hex (a 3)) in
      let na = has_flag (a 4) "noapply" in
      match a 1 with
      | "patch" -> CPick (TPatch (str_of_hex (a 2)), nm, na)
      | "base" -> CPick (TBaseAncestor (nat_of_int (int_of_string (a 2))), nm, na)
      | "head" -> CPick (THeadAncestor (nat_of_int (int_of_string (a 2))), nm, na)
      | _ -> raise Bad_request)
  | "inspect" -> CInspect
  | "gedit" -> GEdit (nat_of_int (int_of_string (a 1)), n_of_decimal (a 2))
  | "gcommit" -> GCommit (n_of_decimal (a 1), str_of_hex (a 2))
  | "gamend" -> GAmend (n_of_decimal (a 1), str_of_hex (a 2))
  | "gmerge" -> GMerge (n_of_decimal (a 1))
  | "gconfig" -> GConfigApc (a 1 = "1")
  | "greset" -> (
      match a 1 with
      | "patch" -> GResetHard (TPatch (str_of_hex (a 2)))
      | "base" -> GResetHard (TBaseAncestor (nat_of_int (int_of_string (a 2))))
      | "head" -> GResetHard (THeadAncestor (nat_of_int (int_of_string (a 2))))
      | _ -> raise Bad_request)
  | _ -> raise Bad_request

let show_exit = function X0 -> "0" | X1 -> "1" | X2 -> "2" | X3 -> "3" | XPanic -> "panic"

(* ---- protocol observers ---- *)

let refname_of (s : string) : refname =
  if s = "B" then RBranch else if s = "S" then RStack
  else RPatch (str_of_hex (String.sub s 2 (String.length s - 2)))

let show_refname = function
  | RBranch -> "B" | RStack -> "S" | RPatch nm -> "P:" ^ hex_of_str nm

let refs_of (s : string) : refs =
  if s = "-" then []
  else List.map (fun item ->
      match String.split_on_char '=' item with
      | [k; v] -> (refname_of k, n_of_decimal v)
      | _ -> raise Bad_request) (split_char ',' s)

let show_refs (r : refs) : string =
  let items = List.map (fun (k, v) -> show_refname k ^ "=" ^ string_of_int (int_of_n v)) r in
  let items = List.sort compare items in
  if items = [] then "-" else String.concat "," items

let opt_num (s : string) : n option = if s = "_" then None else Some (n_of_decimal s)

(* plan fields: extmods set_head use_iw wt_merge patch_updates new_state new_head old_tree new_tree halt ext_early *)
let plan_of (f : string list) : txplan =
  let a i = nth f i in
  let updates =
    if a 4 = "-" then []
    else List.map (fun item ->
        match String.split_on_char '=' item with
        | [k; "del"] -> (str_of_hex k, None)
        | [k; v] -> (str_of_hex k, Some (n_of_decimal v))
        | _ -> raise Bad_request) (split_char ',' (a 4))
  in
  { p_extmods = opt_num (a 0); p_set_head = (a 1 = "1"); p_use_iw = (a 2 = "1");
    p_wt_merge = opt_num (a 3); p_patch_updates = updates; p_new_state = n_of_decimal (a 5);
    p_new_head = n_of_decimal (a 6); p_old_tree = n_of_decimal (a 7);
    p_new_tree = n_of_decimal (a 8); p_halt = (a 9 = "1");
    p_ext_early = (List.length f > 10 && a 10 = "1") }

let point_of = function
  | "stack.loaded" -> PtStackLoaded | "push.before_wt_merge" -> PtPushBeforeWtMerge
  | "exec.start" -> PtExecStart | "exec.after_external_mods" -> PtAfterExtMods
  | "exec.before_checkout" -> PtBeforeCheckout | "exec.after_checkout" -> PtAfterCheckout
  | "crit.enter" -> PtCritEnter | "crit.prev_read" -> PtCritPrevRead
  | "crit.state_committed" -> PtCritStateCommitted | "crit.before_edit" -> PtCritBeforeEdit
  | "crit.after_edit" -> PtCritAfterEdit | "exec.after_crit" -> PtAfterCrit
  | _ -> raise Bad_request

let show_pexit = function E0 -> "0" | E2 -> "2" | E3 -> "3" | E130 -> "130"

let show_pworld (w : pworld) : string =
  Printf.sprintf "refs=%s wt=%d" (show_refs w.pw_refs) (int_of_n w.pw_wt)

let show_pobs (o : pobs) : string =
  Printf.sprintf "exit=%s rolledback=%d %s" (show_pexit o.ob_exit)
    (if o.ob_says_rolled_back then 1 else 0) (show_pworld o.ob_world)

(* ---- request evaluation ---- *)



let release_mode = ref false

let eval (fields : string list) : string =
  match nth fields 0 with
  | "validate" -> if validate (str_of_hex (nth fields 1)) then "ok" else "err"
  | "fromstr" -> (
      match from_str (str_of_hex (nth fields 1)) with
      | Some n -> "ok " ^ hex_of_str n
      | None -> "err")
  | "make" -> (
      let lower = nth fields 1 = "1" in
      let limit =
        match nth fields 2 with "-" -> None | d -> Some (n_of_decimal d)
      in
      match make lower_s (str_of_hex (nth fields 3)) lower limit with
      | Ok n -> "ok " ^ hex_of_str n
      | Err -> "err"
      | Panic -> "PANIC")
  | "uniquify" -> (
      let name = str_of_hex (nth fields 1) in
      let allow = strs_of_hexlist (nth fields 2) in
      let dis = strs_of_hexlist (nth fields 3) in
      match uniquify name allow dis with
      | UOk n -> "ok " ^ hex_of_str n
      | UFuel -> "FUEL")
  | "collides" ->
      if collides (str_of_hex (nth fields 1)) (str_of_hex (nth fields 2)) then "true"
      else "false"
  | "locparse" -> (
      match parse_locator (str_of_hex (nth fields 1)) with
      | Some l -> "ok " ^ show_loc l ^ " " ^ hex_of_str (display_loc l)
      | None -> "err")
  | "rangeparse" -> (
      match parse_range (str_of_hex (nth fields 1)) with
      | Some r -> "ok " ^ show_range r ^ " " ^ hex_of_str (display_range r)
      | None -> "err")
  | "offsparse" -> (
      match offsets_full (str_of_hex (nth fields 1)) with
      | Some o -> "ok " ^ show_atoms o
      | None -> "err")
  | "resolve" -> (
      let v = view_of (nth fields 1) (nth fields 2) (nth fields 3) (nth fields 4) in
      match parse_locator (str_of_hex (nth fields 5)) with
      | None -> "parse-err"
      | Some l -> (
          match resolve_name v l with
          | ROk n -> "ok " ^ hex_of_str n
          | RErr e -> "err " ^ lerr_name e
          | RPanic -> "PANIC"))
  | "resolve_names" -> (
      let v = view_of (nth fields 1) (nth fields 2) (nth fields 3) (nth fields 4) in
      let rc = rconstraint_of (nth fields 5) in
      let contiguous = nth fields 6 = "1" in
      let rec parse_all = function
        | [] -> Some []
        | h :: t -> (
            match parse_range h with
            | None -> None
            | Some r -> ( match parse_all t with None -> None | Some l -> Some (r :: l)))
      in
      match parse_all (strs_of_hexlist (nth fields 7)) with
      | None -> "parse-err"
      | Some ranges -> (
          let res =
            if contiguous then resolve_names_contiguous v rc ranges
            else resolve_names v rc ranges
          in
          match res with
          | ROk l -> "ok " ^ hexlist_of_strs l
          | RErr e -> "err " ^ lerr_name e
          | RPanic -> "PANIC"))
  | "world" ->
      cur_world := init_world (cells_of (nth fields 1));
      "exit=0 " ^ dump_world !cur_world
  | "step" ->
      let c = decode_cmd (List.tl fields) in
      let w', x = step lower_s !cur_world c in
      cur_world := w';
      "exit=" ^ show_exit x ^ " " ^ dump_world w'
  | "proto" ->
      (* proto <kind> <point|j|sched> <refs> <wt> <10 plan fields...> *)
      let kind = nth fields 1 and arg = nth fields 2 in
      let w0 = { pw_refs = refs_of (nth fields 3); pw_wt = n_of_decimal (nth fields 4) } in
      let rec drop k l = if k = 0 then l else drop (k - 1) (List.tl l) in
      let pl = plan_of (drop 5 fields) in
      (match kind with
       | "fault" -> show_pobs (fault_at pl w0 (point_of arg))
       | "sigint" -> show_pobs (sigint_at pl w0 (point_of arg))
       | "crash" -> show_pworld (crash_at pl w0 (point_of arg))
       | "world" -> show_pworld (world_at pl w0 (point_of arg))
       | "crash_edit" -> show_pworld (crash_in_edit pl w0 (nat_of_int (int_of_string arg)))
       | "edits" ->
           let es = commit_order (plan_edits pl (world_at pl w0 PtCritBeforeEdit).pw_refs) in
           String.concat ";" (List.map (function
             | EUpdate (nm, v, _) -> "update " ^ show_refname nm ^ " " ^ string_of_int (int_of_n v)
             | EDelete nm -> "delete " ^ show_refname nm) es)
       | _ -> raise Bad_request)
  | "sched" ->
      (* sched <use_loaded> <s1> <s2> <v0> <schedule as string of 0/1> *)
      let ul = nth fields 1 = "1" in
      let s1 = n_of_decimal (nth fields 2) and s2 = n_of_decimal (nth fields 3) in
      let v0 = n_of_decimal (nth fields 4) in
      let sched = List.init (String.length (nth fields 5)) (fun i -> (nth fields 5).[i] = '1') in
      let ((r, p1), p2) = run2 ul s1 s2 sched [ (RStack, v0) ] in
      Printf.sprintf "stack=%s p1failed=%d p2failed=%d"
        (match ref_get r RStack with Some v -> string_of_int (int_of_n v) | None -> "-")
        (if p1.pr_failed then 1 else 0) (if p2.pr_failed then 1 else 0)
  | "gitok" -> if git_component_ok (str_of_hex (nth fields 1)) then "true" else "false"
  | "pname" -> (
      match patch_name_p (str_of_hex (nth fields 1)) with
      | POk (n, rest) -> "ok " ^ hex_of_str n ^ " " ^ hex_of_str rest
      | PBack -> "back"
      | PCut -> "cut")
  | "check_table" ->
      let tbl =
        Hashtbl.fold
          (fun cp l acc -> (n_of_int cp, List.map n_of_int l) :: acc)
          lower_tbl []
      in
      if check_table tbl then "true" else "false"
  | "classes" ->
      (* model-side character classes for every scalar value: "<cp>:<flags>" for each
         scalar value that is whitespace or control (w/c), plus ASCII alnum (a) *)
      let b = Buffer.create 4096 in
      for cp = 0 to 0x10FFFF do
        if cp < 0xD800 || cp > 0xDFFF then begin
          let c = n_of_int cp in
          let w = is_whitespace c and ct = is_control c in
          let a = cp < 128 && is_ascii_alnum c in
          if w || ct || a then begin
            Buffer.add_string b (Printf.sprintf "%x:" cp);
            if w then Buffer.add_char b 'w';
            if ct then Buffer.add_char b 'c';
            if a then Buffer.add_char b 'a';
            Buffer.add_char b ' '
          end
        end
      done;
      Buffer.contents b
  | _ -> raise Bad_request

let () =
  let args = Array.to_list Sys.argv in
  let rec parse = function
    | "--unicode" :: path :: rest ->
        load_unicode path;
        parse rest
    | "--release" :: rest ->
        release_mode := true;
        parse rest
    | _ :: rest -> parse rest
    | [] -> ()
  in
  parse (List.tl args);
  try
    while true do
      let line = input_line stdin in
      match split_char '\t' line with
      | id :: (_ :: _ as fields) ->
          let text =
            try eval fields with
            | Bad_request -> "BADREQ"
            | Not_found | Failure _ | Invalid_argument _ -> "BADREQ"
          in
          print_string id;
          print_char '\t';
          print_endline text
      | _ -> ()
    done
  with End_of_file -> ()
