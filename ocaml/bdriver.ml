(* Correspondence driver for the branch-administration model (C17), answering from the
   model extracted from Coq (bmodel.ml).  One request per line on stdin:
     <id> TAB bstep TAB <refs> TAB <cfg> TAB <head> TAB <states> TAB <op> TAB <args...>
   refs   : name=id,name=id      (name: hex of UTF-8 bytes, id: decimal), "-" when empty
   cfg    : sub:key:val,...      (hex each; "-" is the empty string inside, "-" alone when empty)
   head   : hex name, or "_" when detached
   states : id:name=commit;name=commit|id:...   ("-" when empty; a state without patches is "id:")
   op     : clone <new> | rename <old> <new> | delete <b> <0|1> | cleanup <b> <0|1>
            | protect <b> | unprotect <b>
   answer : ok=<0|1> head=<hex|_> refs=<sorted> cfg=<sorted> *)

open Bmodel

exception Bad_request

let rec pos_of_int (i : int) : positive =
  if i = 1 then XH
  else if i land 1 = 0 then XO (pos_of_int (i lsr 1))
  else XI (pos_of_int (i lsr 1))

let n_of_int (i : int) : n = if i = 0 then N0 else Npos (pos_of_int i)

let rec int_of_pos (p : positive) : int =
  match p with XH -> 1 | XO q -> 2 * int_of_pos q | XI q -> (2 * int_of_pos q) + 1

let int_of_n (x : n) : int = match x with N0 -> 0 | Npos p -> int_of_pos p

let nth (l : string list) (i : int) : string =
  match List.nth_opt l i with Some x -> x | None -> raise Bad_request

(* strings travel as hex of their bytes; the model's characters are the bytes (branch and
   patch names are compared bytewise by the implementation: ref names and config
   subsections) *)
let str_of_hex (h : string) : n list =
  if h = "-" then []
  else begin
    let len = String.length h / 2 in
    List.init len (fun i -> n_of_int (int_of_string ("0x" ^ String.sub h (2 * i) 2)))
  end

let hex_of_str (s : n list) : string =
  if s = [] then "-"
  else String.concat "" (List.map (fun c -> Printf.sprintf "%02x" (int_of_n c)) s)

let split_char (c : char) (s : string) : string list = String.split_on_char c s

let refs_of (s : string) : (n list * n) list =
  if s = "-" then []
  else List.map (fun item ->
      match split_char '=' item with
      | [k; v] -> (str_of_hex k, n_of_int (int_of_string v))
      | _ -> raise Bad_request) (split_char ',' s)

let cfg_of (s : string) : ((n list * n list) * n list) list =
  if s = "-" then []
  else List.map (fun item ->
      match split_char ':' item with
      | [a; b; c] -> ((str_of_hex a, str_of_hex b), str_of_hex c)
      | _ -> raise Bad_request) (split_char ',' s)

let states_of (s : string) : (n * (n list * n) list) list =
  if s = "-" then []
  else List.map (fun item ->
      match split_char ':' item with
      | [id; ps] ->
          (n_of_int (int_of_string id),
           if ps = "" then []
           else List.map (fun p ->
               match split_char '=' p with
               | [k; v] -> (str_of_hex k, n_of_int (int_of_string v))
               | _ -> raise Bad_request) (split_char ';' ps))
      | _ -> raise Bad_request) (split_char '|' s)

let show_repo (r : brepo) (ok : bool) : string =
  let refs = List.sort compare
      (List.map (fun (k, v) -> hex_of_str k ^ "=" ^ string_of_int (int_of_n v)) r.b_refs) in
  let cfg = List.sort compare
      (List.map (fun ((a, b), c) -> hex_of_str a ^ ":" ^ hex_of_str b ^ ":" ^ hex_of_str c) r.b_cfg) in
  Printf.sprintf "ok=%d head=%s refs=%s cfg=%s" (if ok then 1 else 0)
    (match r.b_head with Some h -> hex_of_str h | None -> "_")
    (if refs = [] then "-" else String.concat "," refs)
    (if cfg = [] then "-" else String.concat "," cfg)

let eval (fields : string list) : string =
  match nth fields 0 with
  | "bstep" ->
      let r = { b_refs = refs_of (nth fields 1); b_cfg = cfg_of (nth fields 2);
                b_head = (if nth fields 3 = "_" then None else Some (str_of_hex (nth fields 3)));
                b_states = states_of (nth fields 4) } in
      let a i = nth fields (5 + i) in
      let op = match a 0 with
        | "create" ->
            BCreate (str_of_hex (a 1), (if a 2 = "_" then None else Some (str_of_hex (a 2))),
                     n_of_int (int_of_string (a 3)), n_of_int (int_of_string (a 4)))
        | "switch" -> BSwitch (str_of_hex (a 1))
        | "describe" -> BDescribe (str_of_hex (a 1), (if a 2 = "-" then [] else str_of_hex (a 2)))
        | "clone" -> BClone (str_of_hex (a 1))
        | "rename" -> BRename (str_of_hex (a 1), str_of_hex (a 2))
        | "delete" -> BDelete (str_of_hex (a 1), a 2 = "1")
        | "cleanup" -> BCleanup (str_of_hex (a 1), a 2 = "1")
        | "protect" -> BProtect (str_of_hex (a 1))
        | "unprotect" -> BUnprotect (str_of_hex (a 1))
        | _ -> raise Bad_request in
      let r', ok = bstep r op in
      show_repo r' ok
  | _ -> raise Bad_request

let () =
  try
    while true do
      let line = input_line stdin in
      match split_char '\t' line with
      | id :: (_ :: _ as fields) ->
          let text =
            try eval fields with
            | Bad_request -> "BADREQ"
            | Not_found | Failure _ | Invalid_argument _ -> "BADREQ"
          in
          print_string id;
          print_char '\t';
          print_endline text
      | _ -> ()
    done
  with End_of_file -> ()
