(* Correspondence driver for the export / import text model (C18), answering from the model
   extracted from Coq (emodel.ml) in the line protocol of `stg verif-eval`:
     <id> TAB <fn> TAB <arg> ...        byte strings travel as hex ("-" = empty)
   splitpatch <content>            -> <message> <diff>
   parsemsg <message>              -> err | ok <patch> <name> <email> <date> <subject> <msgid> <body>
                                      (header values: hex, "e" for empty, "_" for absent)
   nameemail <value>               -> err | ok <name> <email>
   specialize <template> <k=v,...> -> <bytes>
   descrsplit <description>        -> <short> <long>
   exportdefault <descr> <name> <email> <diffstat> <diff> -> <file bytes>
   importfile <content>            -> err | ok <name> <email> <message> <diff> *)

open Emodel

exception Bad_request

let rec pos_of_int (i : int) : positive =
  if i = 1 then XH
  else if i land 1 = 0 then XO (pos_of_int (i lsr 1))
  else XI (pos_of_int (i lsr 1))

let n_of_int (i : int) : n = if i = 0 then N0 else Npos (pos_of_int i)

let rec int_of_pos (p : positive) : int =
  match p with XH -> 1 | XO q -> 2 * int_of_pos q | XI q -> (2 * int_of_pos q) + 1

let int_of_n (x : n) : int = match x with N0 -> 0 | Npos p -> int_of_pos p

let nth (l : string list) (i : int) : string =
  match List.nth_opt l i with Some x -> x | None -> raise Bad_request

(* small table so that conversion of long byte strings does not rebuild numbers *)
let byte_tbl : n array = Array.init 256 n_of_int

let bytes_of_hex (h : string) : n list =
  if h = "-" then []
  else begin
    let len = String.length h / 2 in
    List.init len (fun i -> byte_tbl.(int_of_string ("0x" ^ String.sub h (2 * i) 2)))
  end

let hex_of_bytes (s : n list) : string =
  if s = [] then "-"
  else begin
    let b = Buffer.create 64 in
    List.iter (fun c -> Buffer.add_string b (Printf.sprintf "%02x" (int_of_n c))) s;
    Buffer.contents b
  end

let hv (o : n list option) : string =
  match o with None -> "_" | Some [] -> "e" | Some v -> hex_of_bytes v

let eval (fields : string list) : string =
  match nth fields 0 with
  | "splitpatch" ->
      let m, d = split_patch (bytes_of_hex (nth fields 1)) in
      hex_of_bytes m ^ " " ^ hex_of_bytes d
  | "parsemsg" -> (
      match parse_message (bytes_of_hex (nth fields 1)) with
      | PMErr -> "err"
      | PMOk (h, body) ->
          let name, email =
            match h.h_author with Some (a, b) -> (Some a, Some b) | None -> (None, None) in
          String.concat " "
            [ "ok"; hv h.h_patch; hv name; hv email; hv h.h_date; hv h.h_subject; hv h.h_msgid;
              hex_of_bytes body ])
  | "nameemail" -> (
      match parse_name_email (bytes_of_hex (nth fields 1)) with
      | Some (a, b) -> "ok " ^ hv (Some a) ^ " " ^ hv (Some b)
      | None -> "err")
  | "specialize" ->
      let repl =
        if nth fields 2 = "-" then []
        else List.map (fun item ->
            match String.split_on_char '=' item with
            | [k; v] -> (bytes_of_hex k, bytes_of_hex v)
            | _ -> raise Bad_request) (String.split_on_char ',' (nth fields 2)) in
      hex_of_bytes (specialize (bytes_of_hex (nth fields 1)) repl)
  | "descrsplit" ->
      let a, b = descr_split (bytes_of_hex (nth fields 1)) in
      hex_of_bytes a ^ " " ^ hex_of_bytes b
  | "exportdefault" ->
      let f i = bytes_of_hex (nth fields i) in
      let p = { pi_description = f 1; pi_authname = f 2; pi_authemail = f 3; pi_authdate = [];
                pi_commname = []; pi_commemail = []; pi_commdate = []; pi_diffstat = f 4; pi_diff = f 5 } in
      hex_of_bytes (export_file default_template p)
  | "importfile" -> (
      match import_file (bytes_of_hex (nth fields 1)) with
      | None -> "err"
      | Some im ->
          let name, email =
            match im.im_headers.h_author with Some (a, b) -> (Some a, Some b) | None -> (None, None) in
          String.concat " " [ "ok"; hv name; hv email; hex_of_bytes im.im_message; hex_of_bytes im.im_diff ])
  | "recreate" -> (
      (* recreate <header> <hex bytes> <config> *)
      let h = match nth fields 1 with
        | "none" -> HAbsent | "utf8" -> HUtf8 | "latin1" -> HLatin1 | "w1252" -> HW1252
        | "unknown" -> HUnknown | _ -> raise Bad_request in
      let c = match nth fields 3 with
        | "none" -> CfgNone | "utf8" -> CfgUtf8 | "latin1" -> CfgLatin1 | "w1252" -> CfgW1252
        | _ -> raise Bad_request in
      let hs = function HAbsent -> "none" | HUtf8 -> "utf8" | HLatin1 -> "latin1" | HW1252 -> "w1252"
                      | HUnknown -> "unknown" in
      let bytes = bytes_of_hex (nth fields 2) in
      match recreate h bytes c with
      | None -> "err"
      | Some (h', out) ->
          let txt = match git_text h' out with
            | None -> "_"
            | Some t -> String.concat "," (List.map (fun x -> string_of_int (int_of_n x)) t) in
          String.concat " " [ "ok"; hs h'; hv (Some out); txt ])
  | "recreatename" -> (
      (* recreatename <header> <hex bytes> <config> *)
      let h = match nth fields 1 with
        | "none" -> HAbsent | "utf8" -> HUtf8 | "latin1" -> HLatin1 | "w1252" -> HW1252
        | "unknown" -> HUnknown | _ -> raise Bad_request in
      let c = match nth fields 3 with
        | "none" -> CfgNone | "utf8" -> CfgUtf8 | "latin1" -> CfgLatin1 | "w1252" -> CfgW1252
        | _ -> raise Bad_request in
      match recreate_name h (bytes_of_hex (nth fields 2)) c with
      | None -> "err"
      | Some out -> "ok " ^ hv (Some out))
  | _ -> raise Bad_request

let () =
  try
    while true do
      let line = input_line stdin in
      match String.split_on_char '\t' line with
      | id :: (_ :: _ as fields) ->
          let text =
            try eval fields with
            | Bad_request -> "BADREQ"
            | Not_found | Failure _ | Invalid_argument _ -> "BADREQ"
          in
          print_string id;
          print_char '\t';
          print_endline text
      | _ -> ()
    done
  with End_of_file -> ()
