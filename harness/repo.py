"""Throw-away git repositories for history-level correspondence and direct oracles."""

import itertools
import os
import shutil
import subprocess

from . import common

_counter = itertools.count()

BASE_ENV = {
    "GIT_CONFIG_NOSYSTEM": "1",
    "GIT_AUTHOR_NAME": "A U Thor",
    "GIT_AUTHOR_EMAIL": "author@example.com",
    "GIT_COMMITTER_NAME": "C O Mitter",
    "GIT_COMMITTER_EMAIL": "committer@example.com",
    "GIT_EDITOR": "false",
    "EDITOR": "false",
    "VISUAL": "false",
    "GIT_PAGER": "cat",
    "PAGER": "cat",
    "TERM": "dumb",
    "NO_COLOR": "1",
    "LC_ALL": "C.UTF-8",
    "TZ": "UTC",
    "GIT_TERMINAL_PROMPT": "0",
    "RUST_BACKTRACE": "0",          # the panic line must stay within the stderr excerpts that are kept
}


class Scratch:
    def __init__(self, tag="s"):
        root = os.path.join(common.CACHE, "run")
        os.makedirs(root, exist_ok=True)
        self.path = os.path.join(root, "%d-%s-%d" % (os.getpid(), tag, next(_counter)))
        self.home = self.path + ".home"
        self.tick = 1112911993

    def __enter__(self):
        shutil.rmtree(self.path, ignore_errors=True)
        os.makedirs(self.path)
        os.makedirs(self.home, exist_ok=True)
        return self

    def __exit__(self, *a):
        shutil.rmtree(self.path, ignore_errors=True)
        shutil.rmtree(self.home, ignore_errors=True)

    def env(self, extra=None):
        e = dict(os.environ)
        e.update(common.OFFLINE_ENV)
        e.update(BASE_ENV)
        e["HOME"] = self.home
        e["XDG_CONFIG_HOME"] = self.home
        self.tick += 60
        e["GIT_AUTHOR_DATE"] = "%d +0000" % self.tick
        e["GIT_COMMITTER_DATE"] = "%d +0000" % self.tick
        if extra:
            e.update(extra)
        return e

    def git(self, args, check=True, env=None, input=None, text=True, cwd=None):
        p = subprocess.run(["git"] + list(args), cwd=cwd or self.path, env=self.env(env), input=input,
                           capture_output=True, text=text, timeout=120)
        if check and p.returncode != 0:
            raise RuntimeError("git %s failed (%d): %s" % (" ".join(args), p.returncode, p.stderr))
        return p

    def stg(self, stg, args, env=None, input=None, timeout=60, text=True):
        try:
            kw = {"input": input} if input is not None else {"stdin": subprocess.DEVNULL}
            return subprocess.run([stg] + list(args), cwd=self.path, env=self.env(env),
                                  capture_output=True, text=text, timeout=timeout, **kw)
        except subprocess.TimeoutExpired as e:
            return subprocess.CompletedProcess(e.cmd, -999, stdout="", stderr="TIMEOUT")

    def init_repo(self, branch="main"):
        self.git(["init", "-q", "-b", branch])
        self.git(["config", "user.name", "C O Mitter"])
        self.git(["config", "user.email", "committer@example.com"])
        self.git(["config", "core.autocrlf", "false"])
        self.git(["config", "commit.gpgsign", "false"])
        self.write("base.txt", "base\n")
        self.git(["add", "-A"])
        self.git(["commit", "-q", "-m", "base commit"])

    def write(self, rel, content):
        p = os.path.join(self.path, rel)
        os.makedirs(os.path.dirname(p), exist_ok=True)
        mode = "wb" if isinstance(content, bytes) else "w"
        with open(p, mode) as f:
            f.write(content)

    def read(self, rel, binary=False):
        p = os.path.join(self.path, rel)
        with open(p, "rb" if binary else "r") as f:
            return f.read()

    def rev(self, spec):
        p = self.git(["rev-parse", "--verify", "-q", spec], check=False)
        return p.stdout.strip() if p.returncode == 0 else None
