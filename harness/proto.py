"""Protocol-level correspondence (C03 / C04 / C19 / C11): for every transaction command of a
scenario corpus, trace a fault-free run (program points, ordered ref edits), build the
transaction plan, and compare the model's prediction (Model/Protocol.v through the
extracted driver) with what the real stg does when a step fails, the process is killed, or
one SIGINT arrives - at every program point."""

import json
import os
import random
import shutil
import signal
import subprocess
import time

from . import common, funcorr, repo, rigs
from .funcorr import hx, unhx

# each case: (name, setup commands, command under test).  Setup commands are argv lists;
# an argv starting with "!git" is a plain git command, "!write" writes a file and stages it.
CASES = [
    ("push", [["new", "-m", "a", "a"], ["!write", "f.txt", "1\n"], ["refresh"],
              ["new", "-m", "b", "b"], ["!write", "g.txt", "2\n"], ["refresh"], ["pop", "-n", "2"]],
     ["push", "-n", "2"]),
    ("pop", [["new", "-m", "a", "a"], ["!write", "f.txt", "1\n"], ["refresh"]], ["pop"]),
    ("goto", [["new", "-m", "a", "a"], ["!write", "f.txt", "1\n"], ["refresh"], ["new", "-m", "b", "b"],
              ["!write", "g.txt", "2\n"], ["refresh"]], ["goto", "a"]),
    ("float", [["new", "-m", "a", "a"], ["!write", "f.txt", "1\n"], ["refresh"], ["new", "-m", "b", "b"],
               ["!write", "g.txt", "2\n"], ["refresh"]], ["float", "a"]),
    ("sink", [["new", "-m", "a", "a"], ["!write", "f.txt", "1\n"], ["refresh"], ["new", "-m", "b", "b"],
              ["!write", "g.txt", "2\n"], ["refresh"]], ["sink", "b"]),
    ("delete", [["new", "-m", "a", "a"], ["!write", "f.txt", "1\n"], ["refresh"], ["new", "-m", "b", "b"],
                ["!write", "g.txt", "2\n"], ["refresh"]], ["delete", "a"]),
    ("hide", [["new", "-m", "a", "a"], ["new", "-m", "b", "b"], ["pop"]], ["hide", "b"]),
    ("unhide", [["new", "-m", "a", "a"], ["new", "-m", "b", "b"], ["pop"], ["hide", "b"]], ["unhide", "b"]),
    ("rename", [["new", "-m", "a", "a"]], ["rename", "a", "z"]),
    ("commit", [["new", "-m", "a", "a"], ["!write", "f.txt", "1\n"], ["refresh"]], ["commit"]),
    ("uncommit", [["new", "-m", "a", "a"], ["!write", "f.txt", "1\n"], ["refresh"], ["commit"]],
     ["uncommit", "u"]),
    ("new", [["new", "-m", "a", "a"]], ["new", "-m", "n", "n"]),
    # the commands the model gained later: one or two transactions each, pops and pushes inside
    ("edit", [["new", "-m", "a", "a"], ["!write", "f.txt", "1\n"], ["refresh"], ["new", "-m", "b", "b"],
              ["!write", "g.txt", "2\n"], ["refresh"]], ["edit", "-m", "reworded", "a"]),
    ("squash", [["new", "-m", "a", "a"], ["!write", "f.txt", "1\n"], ["refresh"], ["new", "-m", "b", "b"],
                ["!write", "g.txt", "2\n"], ["refresh"]], ["squash", "-m", "both", "-n", "ab", "a", "b"]),
    ("pick", [["new", "-m", "a", "a"], ["!write", "f.txt", "1\n"], ["refresh"], ["pop"],
              ["new", "-m", "b", "b"], ["!write", "g.txt", "2\n"], ["refresh"]], ["pick", "--name", "cp", "a"]),
    ("pick-noapply", [["new", "-m", "a", "a"], ["!write", "f.txt", "1\n"], ["refresh"]],
     ["pick", "--noapply", "--name", "cp", "a"]),
    ("uncommit-generated", [["new", "-m", "first one", "a"], ["!write", "f.txt", "1\n"], ["refresh"],
                            ["new", "-m", "second one", "b"], ["!write", "g.txt", "2\n"], ["refresh"], ["commit", "-a"]],
     ["uncommit", "-n", "2"]),
    ("refresh-p", [["new", "-m", "a", "a"], ["!write", "f.txt", "1\n"], ["refresh"], ["new", "-m", "b", "b"],
                   ["!write", "g.txt", "2\n"], ["refresh"], ["!write", "h.txt", "3\n"]], ["refresh", "-p", "a"]),
    ("rebase", [["!write", "u.txt", "u\n"], ["!git", "commit", "-q", "-m", "upstream"],
                ["new", "-m", "a", "a"], ["!write", "f.txt", "1\n"], ["refresh"]], ["rebase", "HEAD~2"]),
    # the first patch of a stack / the last patch leaving it: the state before resp. after is empty
    ("new-first", [], ["new", "-m", "n", "n"]),
    ("refresh", [["new", "-m", "a", "a"], ["!write", "f.txt", "1\n"]], ["refresh"]),
    ("spill", [["new", "-m", "a", "a"], ["!write", "f.txt", "1\n"], ["refresh"]], ["spill"]),
    ("clean", [["new", "-m", "a", "a"], ["new", "-m", "b", "b"], ["!write", "f.txt", "1\n"], ["refresh"]],
     ["clean"]),
    ("undo", [["new", "-m", "a", "a"], ["!write", "f.txt", "1\n"], ["refresh"], ["pop"]], ["undo"]),
    ("redo", [["new", "-m", "a", "a"], ["!write", "f.txt", "1\n"], ["refresh"], ["pop"], ["undo"]], ["redo"]),
    ("reset", [["new", "-m", "a", "a"], ["!write", "f.txt", "1\n"], ["refresh"], ["pop"]],
     ["reset", "refs/stacks/main~2"]),
    ("repair", [["new", "-m", "a", "a"], ["!write", "f.txt", "1\n"], ["refresh"],
                ["!write", "h.txt", "3\n"], ["!git", "commit", "-q", "-m", "plain git commit"]], ["repair"]),
    ("undo-extmods", [["new", "-m", "a", "a"], ["!write", "f.txt", "1\n"], ["refresh"],
                      ["!write", "h.txt", "3\n"], ["!git", "commit", "-q", "-m", "plain git commit"]],
     ["undo", "--hard"]),
    ("rename-extmods", [["new", "-m", "a", "a"], ["!write", "h.txt", "3\n"],
                        ["!git", "commit", "-q", "-m", "plain git commit"]], ["rename", "a", "z"]),
    ("push-conflict", [["new", "-m", "a", "a"], ["!write", "f.txt", "1\n"], ["refresh"], ["pop"],
                       ["new", "-m", "b", "b"], ["!write", "f.txt", "2\n"], ["refresh"]], ["push", "a"]),
    ("push-wtmerge", [["!write", "s.txt", "x\n"], ["!git", "commit", "-q", "-m", "add s"],
                      ["new", "-m", "a", "a"], ["!git", "rm", "-q", "s.txt"], ["refresh"], ["pop"],
                      ["new", "-m", "b", "b"], ["!git", "rm", "-q", "s.txt"], ["!write", "k.txt", "k\n"],
                      ["refresh"]], ["push", "a"]),
    # a work-tree merge followed by a further patch: execute()'s own check-out has real work to
    # do afterwards, and its failure must roll the merged content back as well
    ("push-wtmerge-two", [["!write", "f.txt", "1\n2\n3\n4\n5\n6\n7\n8\n"], ["!git", "commit", "-q", "-m", "add f"],
                          ["new", "-m", "edit", "edit"], ["!write", "f.txt", "1\n2\n3\n4\n5\n6\n7\nEIGHT\n"],
                          ["refresh"], ["new", "-m", "addh", "addh"], ["!write", "h.txt", "h\n"], ["refresh"],
                          ["pop", "-a"], ["new", "-m", "ren", "ren"], ["!git", "mv", "f.txt", "g.txt"],
                          ["refresh"]], ["push", "edit", "addh"]),
]


def setup_case(r, stg, setup):
    r.init_repo()
    r.stg(stg, ["init"])
    for argv in setup:
        if argv[0] == "!write":
            r.write(argv[1], argv[2])
            r.git(["add", "-A"])
        elif argv[0] == "!git":
            r.git(argv[1:])
        else:
            p = r.stg(stg, argv)
            if p.returncode != 0:
                raise RuntimeError("setup %r failed: %s" % (argv, p.stderr))
    r.stg(stg, ["series"])      # opens the stack once: patch refs are in place


def observe(r):
    """refs of the stack (branch, state, patch refs), checked-out tree (write-tree of the
    index when clean, else a content hash), unmerged flag"""
    refs = {}
    for line in r.git(["for-each-ref", "--format=%(refname) %(objectname)"]).stdout.split("\n"):
        if line:
            n, v = line.split(" ")
            refs[n] = v
    um = r.git(["ls-files", "-u"]).stdout.strip() != ""
    tree = None
    if not um:
        p = r.git(["write-tree"], check=False)
        tree = p.stdout.strip() if p.returncode == 0 else None
    dirty = r.git(["status", "--porcelain"]).stdout.strip()
    wt_dirty = any(l[1:2] not in (" ", "") for l in dirty.split("\n") if l)
    ht = r.git(["rev-parse", "--verify", "-q", "HEAD^{tree}"], check=False)
    return {"refs": refs, "tree": tree, "unmerged": um, "wt_differs_from_index": wt_dirty,
            "head_tree": ht.stdout.strip() if ht.returncode == 0 else None}


class Ids:
    def __init__(self):
        self.m = {}

    def of(self, x):
        if x is None:
            return None
        if x not in self.m:
            self.m[x] = len(self.m) + 1
        return self.m[x]


def refkey(name):
    if name == "refs/heads/main":
        return "B"
    if name == "refs/stacks/main":
        return "S"
    if name.startswith("refs/patches/main/"):
        return "P:" + hx(name[len("refs/patches/main/"):])
    return None


def abstract_refs(refs, ids):
    out = {}
    for n, v in refs.items():
        k = refkey(n)
        if k:
            out[k] = ids.of(v)
    return out


def refs_field(ar):
    return ",".join("%s=%d" % (k, v) for k, v in sorted(ar.items())) or "-"


def parse_pworld(text):
    kv = dict(item.split("=", 1) for item in text.split(" ") if "=" in item and not item.startswith("refs="))
    refs_txt = [item for item in text.split(" ") if item.startswith("refs=")][0][5:]
    refs = {}
    if refs_txt != "-":
        for item in refs_txt.split(","):
            k, v = item.rsplit("=", 1)
            refs[k] = int(v)
    return refs, kv


def trace_case(stg, case, tag):
    """fault-free traced run.  Returns dict with per-transaction plans, or None when the
    command runs no transaction."""
    name, setup, cmd = case
    with repo.Scratch(tag) as r:
        setup_case(r, stg, setup)
        pd = rigs.PointDir(r)
        s0 = observe(r)
        head0 = r.rev("HEAD")
        p = rigs.run_with_point(r, stg, cmd, pd)
        s1 = observe(r)
        log = pd.log()
        edits = pd.ref_edits()
        pd.remove()
        return {"name": name, "s0": s0, "s1": s1, "log": log, "edits": edits, "exit": p.returncode,
                "stderr": p.stderr}


def build_plan(tr, r_before_tree, new_head_tree, ids, s0_state_head_differs):
    """model plan fields from the traced run (single-transaction commands)"""
    edits = tr["edits"]
    patch_updates = []
    new_state = None
    new_head = None
    for e in edits:
        kind, refname, new = e[0], e[1], e[2]
        k = refkey(refname)
        if k == "S":
            new_state = ids.of(new)
        elif k == "B":
            new_head = ids.of(new)
        elif k and k.startswith("P:"):
            patch_updates.append("%s=%s" % (k[2:], "del" if kind == "delete" else ids.of(new)))
    return patch_updates, new_state, new_head


def points_of_txn(log, k=1):
    """names of the points of the k-th transaction of the run, in order"""
    out = []
    for pid, name, nth in log:
        if name.startswith("git:"):
            continue
        if int(nth) == k or name in ("stack.loaded", "push.before_wt_merge"):
            out.append((name, int(nth)))
    return out


# ----------------------------------------------------------------------------- the comparison

def stack_json_of(r, oid):
    p = r.git(["cat-file", "-p", oid + ":stack.json"], check=False)
    return json.loads(p.stdout) if p.returncode == 0 else None


def analyse_trace(stg, case, tag):
    """fault-free traced run of the case; returns the plan (abstract ids) and reference
    observations, or None if the command does not reach a transaction"""
    name, setup, cmd = case
    ids = Ids()
    with repo.Scratch(tag) as r:
        setup_case(r, stg, setup)
        pd = rigs.PointDir(r)
        s0 = observe(r)
        r.tick = 2000000000          # same commit timestamps (hence object ids) in every run
        p = rigs.run_with_point(r, stg, cmd, pd)
        s1 = observe(r)
        log = pd.log()
        edits = pd.ref_edits()
        ntx = max([int(n) for (_, nm, n) in log if nm == "exec.start"] + [0])
        info = None
        if ntx >= 1 and edits:
            new_state = [e[2] for e in edits if e[1] == "refs/stacks/main"][0]
            branch_edit = [e[2] for e in edits if e[1] == "refs/heads/main"]
            sj = stack_json_of(r, new_state)
            prev = sj.get("prev") if sj else None
            # for multi-transaction commands (refresh) the plan describes the LAST transaction;
            # its start world is recorded by a kill at its stack-independent first point
            ext = None
            if ntx == 1 and prev and prev != s0["refs"].get("refs/stacks/main"):
                ext = prev
            new_head = branch_edit[0] if branch_edit else (sj["head"] if sj else None)
            new_tree = r.rev(new_head + "^{tree}") if new_head else None
            info = {"new_state": new_state, "ext": ext, "set_head": bool(branch_edit), "new_head": new_head,
                    "new_tree": new_tree, "ntx": ntx, "ext_early": False}
        pd.remove()
    if info and any(nm == "push.before_wt_merge" for (_, nm, _) in log):
        # what the closure's work-tree merge left checked out: seen on arrival at exec.start
        with repo.Scratch(tag) as r3:
            setup_case(r3, stg, setup)
            pd3 = rigs.PointDir(r3)
            r3.tick = 2000000000
            rigs.run_with_point(r3, stg, cmd, pd3, "exec.start:%d:kill" % info["ntx"])
            o3 = observe(r3)
            info["wt_merge_tree"] = o3["tree"] if not o3["unmerged"] else None
            pd3.remove()
    if info and info["ext"]:
        # undo/redo log the external modification before the transaction is set up: seen as
        # a state ref that has already moved when the process arrives at exec.start
        with repo.Scratch(tag) as r2:
            setup_case(r2, stg, setup)
            pd2 = rigs.PointDir(r2)
            r2.tick = 2000000000
            rigs.run_with_point(r2, stg, cmd, pd2, "exec.start:1:kill")
            info["ext_early"] = observe(r2)["refs"].get("refs/stacks/main") != s0["refs"].get("refs/stacks/main")
            pd2.remove()
    return {"case": name, "cmd": cmd, "s0": s0, "s1": s1, "log": log, "edits": edits, "exit": p.returncode,
            "stderr": p.stderr, "info": info, "ids": ids}


def plan_fields(tr, w0):
    """the ten plan fields for the driver, for the last transaction of the traced run whose
    start world is w0 (an observation)"""
    ids, info = tr["ids"], tr["info"]
    updates = []
    for e in tr["edits"]:
        k = refkey(e[1])
        if k and k.startswith("P:"):
            updates.append("%s=%s" % (k[2:], "del" if e[0] == "delete" else ids.of(e[2])))
    wt_merge = "_"
    if any(nm == "push.before_wt_merge" for (_, nm, _) in tr["log"]):
        wt_merge = str(ids.of(info.get("wt_merge_tree") or "unmerged-after-merge"))
    old_tree = ids.of(w0["tree"])
    new_tree = ids.of(info["new_tree"])
    does_checkout = info["set_head"] and (tr["s1"]["tree"] == info["new_tree"] or tr["s1"]["unmerged"]) \
        and (info["new_tree"] != w0["tree"] or True)
    use_iw = "1" if (does_checkout and (info["new_tree"] == w0["tree"] or tr["s1"]["tree"] == info["new_tree"]
                                        or tr["s1"]["unmerged"])) else "0"
    if info["new_tree"] != w0["tree"] and tr["s1"]["tree"] == w0["tree"]:
        use_iw = "0"
    return [str(ids.of(info["ext"])) if info["ext"] else "_", "1" if info["set_head"] else "0", use_iw, wt_merge,
            ",".join(updates) or "-", str(ids.of(info["new_state"])), str(ids.of(info["new_head"])),
            str(old_tree), str(new_tree), "1" if tr["exit"] == 3 else "0", "1" if info.get("ext_early") else "0"]


def abstract_obs(o, ids):
    return abstract_refs(o["refs"], ids), (ids.of(o["tree"]) if o["tree"] else None)


def run_observer(stg, driver, upath, case, tr, kind, point, nth, tag):
    """one injected run; returns a record"""
    name, setup, cmd = case
    ids = tr["ids"]
    with repo.Scratch(tag) as r:
        setup_case(r, stg, setup)
        pd = rigs.PointDir(r)
        r.tick = 2000000000
        if kind == "fault":
            p = rigs.run_with_point(r, stg, cmd, pd, "%s:%d:fail" % (point, nth))
            rc, err = p.returncode, p.stderr + p.stdout
        elif kind == "crash":
            p = rigs.run_with_point(r, stg, cmd, pd, "%s:%d:kill" % (point, nth))
            rc, err = p.returncode, p.stderr + p.stdout
        else:
            res = rigs.sigint_at(r, stg, cmd, pd, point, nth)
            rc, err = res["exit"], res["stderr"] + res["stdout"]
        obs = observe(r)
        recovery = None
        if kind == "crash":
            recovery = recover(r, stg)
        pd.remove()
    return {"case": name, "kind": kind, "point": point, "nth": nth, "exit": rc, "obs": obs,
            "rolled_back_msg": "rolled back" in err, "stderr": err[-300:], "recovery": recovery}


def recover(r, stg):
    """C04: after a crash the next stg invocation works and repair + reset --hard
    re-establish a consistent stack"""
    out = {}
    for f in os.listdir(os.path.join(r.path, ".git")):
        pass
    locks = subprocess.run(["find", os.path.join(r.path, ".git"), "-name", "*.lock"], capture_output=True,
                           text=True).stdout.split()
    out["stale_locks"] = [os.path.relpath(l, r.path) for l in locks]
    fsck = r.git(["fsck", "--connectivity-only"], check=False)
    out["fsck_ok"] = fsck.returncode == 0 and "missing" not in fsck.stdout + fsck.stderr
    s = r.stg(stg, ["series", "-a"])
    out["series_exit"] = s.returncode
    rp = r.stg(stg, ["repair"])
    out["repair_exit"] = rp.returncode
    rs = r.stg(stg, ["reset", "--hard"])
    out["reset_exit"] = rs.returncode
    st = r.git(["status", "--porcelain"]).stdout.strip()
    out["clean_after"] = st == ""
    out["tree_after"] = r.rev("HEAD^{tree}")
    # C01 / C02 direct oracles on the recovered stack
    so = r.rev("refs/stacks/main")
    sj = stack_json_of(r, so) if so else None
    ok = True
    why = ""
    if sj:
        allp = sj["applied"] + sj["unapplied"] + sj["hidden"]
        if len(set(allp)) != len(allp) or set(allp) != set(sj["patches"]):
            ok, why = False, "lists / patch map inconsistent"
        prev = None
        for k, n in enumerate(sj["applied"]):
            par = r.git(["rev-list", "--parents", "-n", "1", sj["patches"][n]["oid"]]).stdout.split()
            if len(par) != 2 or (k > 0 and par[1] != prev):
                ok, why = False, "applied patches are not a chain"
            prev = sj["patches"][n]["oid"]
        if sj["applied"] and prev != r.rev("refs/heads/main"):
            ok, why = False, "top patch is not the branch head"
        refs = {}
        for line in r.git(["for-each-ref", "--format=%(refname) %(objectname)", "refs/patches/main/"]).stdout.split("\n"):
            if line:
                a, b = line.split(" ")
                refs[a[len("refs/patches/main/"):]] = b
        if refs != {n: sj["patches"][n]["oid"] for n in allp}:
            ok, why = False, "patch refs do not mirror the stack"
    out["stack_ok"] = ok
    out["stack_why"] = why
    return out


def predict(driver, upath, kind, arg, w0_refs, w0_tree, plan):
    req = ["proto", kind, arg, refs_field(w0_refs), str(w0_tree)] + plan
    return funcorr.run_model(driver, upath, [req])[0]


def _case_worker(args):
    stg, driver, upath, case, kinds, tagbase = args
    out = {"case": case[0], "records": [], "trace": None, "error": None}
    try:
        tr = analyse_trace(stg, case, tagbase + "t")
        out["trace"] = {"exit": tr["exit"], "points": [nm for (_, nm, _) in tr["log"] if not nm.startswith("git:")],
                        "edits": tr["edits"], "has_txn": tr["info"] is not None}
        if tr["info"] is None:
            return out
        ids = tr["ids"]
        ntx = tr["info"]["ntx"]
        # start world of the last transaction
        w0 = tr["s0"]
        if ntx > 1:
            # kill at the start of the last transaction to observe its start world
            rec = run_observer(stg, driver, upath, case, tr, "crash", "exec.start", ntx, tagbase + "w")
            w0 = rec["obs"]
        w0_refs, w0_tree = abstract_obs(w0, ids)
        plan = plan_fields(tr, w0)
        out["plan"] = plan
        pts = []
        seen = set()
        for (_, nm, n) in tr["log"]:
            if nm.startswith("git:"):
                continue
            if nm in ("stack.loaded",):
                k = int(n)
                if ntx > 1 or k != max(int(x) for (_, y, x) in tr["log"] if y == "stack.loaded"):
                    continue
            elif nm == "push.before_wt_merge":
                k = int(n)
            elif int(n) != ntx:
                continue
            else:
                k = ntx
            if (nm, k) not in seen:
                seen.add((nm, k))
                pts.append((nm, k))
        for kind in kinds:
            for (nm, k) in pts:
                if kind == "fault" and nm in ("stack.loaded", "exec.after_checkout"):
                    continue            # no fallible operation of the real code at these hook positions
                rec = run_observer(stg, driver, upath, case, tr, kind, nm, k, tagbase + kind[0])
                o_refs, o_tree = abstract_obs(rec["obs"], ids)
                pred_txt = predict(driver, upath, kind, nm, w0_refs, w0_tree, plan)
                p_refs, kv = parse_pworld(pred_txt)
                rec["pred"] = pred_txt
                agree = (p_refs == o_refs)
                if not rec["obs"]["unmerged"] and o_tree is not None and "wt" in kv:
                    agree = agree and int(kv["wt"]) == o_tree
                if kind in ("fault", "sigint"):
                    agree = agree and str(rec["exit"]) == kv.get("exit")
                    agree = agree and (kv.get("rolledback") == "1") == rec["rolled_back_msg"]
                rec["agree"] = agree
                rec["o_refs"] = o_refs
                rec["o_tree"] = o_tree
                rec["refs_unchanged"] = rec["obs"]["refs"] == w0["refs"]
                rec["tree_unchanged"] = rec["obs"]["tree"] == w0["tree"] and not rec["obs"]["unmerged"]
                rec["refs_final"] = rec["obs"]["refs"] == tr["s1"]["refs"]
                rec["tree_final"] = rec["obs"]["tree"] == tr["s1"]["tree"]
                rec["ext_only"] = False
                if tr["info"]["ext"]:
                    r2 = dict(w0["refs"])
                    r2["refs/stacks/main"] = tr["info"]["ext"]
                    rec["ext_only"] = rec["obs"]["refs"] == r2
                rec["has_ext"] = bool(tr["info"]["ext"])
                rec["ext_early"] = bool(tr["info"].get("ext_early"))
                rec["has_wt_merge"] = plan[3] != "_"
                del rec["obs"]
                out["records"].append(rec)
    except Exception:
        import traceback
        out["error"] = traceback.format_exc()[-1500:]
    return out


def run_cases(stg, driver, upath, kinds, cases=None, tag="pr"):
    import multiprocessing
    cases = cases or CASES
    jobs = [(stg, driver, upath, c, kinds, "%s%d" % (tag, i)) for i, c in enumerate(cases)]
    with multiprocessing.Pool(min(12, len(jobs))) as pool:
        return pool.map(_case_worker, jobs, chunksize=1)
