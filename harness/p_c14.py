"""C14 - derived and accepted patch names are always valid, bounded and unique.

Deciding method: Coq theorems (Properties/C14.v) about the transcription of
PatchName::{validate, from_str, make, uniquify, collides} and of the winnow parser
patch_name; tied to the code by (a) the translator (character sets / constants in
Gen/Consts.v, obligations in Proofs/NameTie.v), (b) an exhaustive check of the Unicode facts
dumped from the real binary (check_table over all scalar values), (c) function-level
differential testing of the extracted model against `stg verif-eval`, and (d) direct
oracles on the implementation's own outputs (git check-ref-format, bound, non-collision)."""

import os
import subprocess
import json

from . import common, funcorr, gate, gen_text, repo
from .funcorr import hx, unhx, hxlist

LEVEL = "proof"


def utf8len(s):
    return len(s.encode("utf-8"))


def unicode_tie(ctx, stg, driver, upath, broken):
    """Exhaustive: every scalar value's White_Space / Cc class as the binary reports it
    equals the model's predicate; the lowercase table passes the Coq-extracted
    check_table (whose soundness is theorem C14_table_sound)."""
    res = funcorr.run_model(driver, upath, [["check_table"], ["classes"]])
    ctx.obligations += 2
    if res[0] != "true":
        broken.append("check_table(to_lowercase table dumped from the binary) = %s" % res[0])
    else:
        ctx.discharged += 1
    model = {}
    for item in res[1].split():
        cp, fl = item.split(":")
        model[int(cp, 16)] = fl
    impl = {}
    n_entries = 0
    for line in open(upath):
        parts = line.split()
        if len(parts) != 3:
            continue
        n_entries += 1
        cp = int(parts[0], 16)
        fl = "".join(ch for ch in parts[1] if ch in "wc" or (ch == "a" and cp < 128))
        if fl:
            impl[cp] = fl
    if impl != model:
        diff = sorted(set(impl.items()) ^ set(model.items()))[:10]
        broken.append("character classes differ between binary and model: %r" % (diff,))
    else:
        ctx.discharged += 1
    ctx.coverage["unicode_scalar_values_checked"] = 0x110000 - 0x800
    ctx.coverage["unicode_nontrivial_entries"] = n_entries


def gen_cases(ctx, n_make, n_uniq, n_val):
    rng = ctx.rng
    reqs = []
    meta = []
    limits = ["-", "0", "1", "2", "3", "5", "8", "10", "13", "20", "30", "30", "30", "40", "100",
              "18446744073709551615"]
    for i in range(n_make):
        lim = rng.choice(limits)
        if rng.random() < 0.15 and lim not in ("-", "0", "18446744073709551615"):
            raw = gen_text.near_limit_subject(rng, int(lim))
        else:
            raw = gen_text.subject(rng)
        lower = "1" if rng.random() < 0.8 else "0"
        reqs.append(["make", lower, lim, hx(raw)])
        meta.append(("make", raw, lower, lim))
    for i in range(n_uniq):
        name = gen_text.candidate_name(rng)
        dis = []
        for _ in range(rng.choice([0, 1, 2, 3, 5, 8, 20])):
            k = rng.random()
            if k < 0.4:
                dis.append(gen_text.case_twin(rng, name))
            elif k < 0.7:
                dis.append(gen_text.case_twin(rng, name.rstrip("0123456789") + str(rng.randint(0, 12))))
            elif k < 0.8:
                dis.append(name + "-" + str(rng.randint(1, 4)))
            else:
                dis.append(gen_text.candidate_name(rng))
        allow = [name] if rng.random() < 0.1 else ([gen_text.candidate_name(rng)] if rng.random() < 0.2 else [])
        reqs.append(["uniquify", hx(name), hxlist(allow), hxlist(dis)])
        meta.append(("uniquify", name, allow, dis))
    for i in range(n_val):
        s = gen_text.raw_string(rng) if rng.random() < 0.6 else gen_text.candidate_name(rng)
        reqs.append(["fromstr", hx(s)])
        meta.append(("fromstr", s))
        reqs.append(["validate", hx(s)])
        meta.append(("validate", s))
    return reqs, meta


def direct_oracle(meta, impl_out):
    """Property C14 evaluated directly on what the implementation returned (independent
    of the model).  Returns None or a description of the failure."""
    kind = meta[0]
    if impl_out in ("PANIC", "MISSING", "BADREQ"):
        return "implementation %s" % impl_out
    if kind == "make":
        _, raw, lower, lim = meta
        if not impl_out.startswith("ok "):
            return "make returned %r" % impl_out
        return None
    if kind == "uniquify":
        _, name, allow, dis = meta
        if not impl_out.startswith("ok "):
            return "uniquify returned %r" % impl_out
        r = unhx(impl_out[3:])
        if r in allow:
            return None
        low = r.encode().lower()
        for d in dis:
            if d.encode().lower() == low:
                return "uniquified name %r still collides with %r" % (r, d)
    return None


def git_check_names(names, workdir):
    """Independent oracle: `git check-ref-format refs/patches/b/<name>` must accept every
    name stg accepted or produced."""
    bad = []
    for n in names:
        if "\x00" in n:
            bad.append(n)
            continue
        p = subprocess.run(["git", "check-ref-format", "refs/patches/b/" + n], cwd=workdir,
                           capture_output=True)
        if p.returncode != 0:
            bad.append(n)
    return bad


def hidden_collision_probes(stg):
    """names derived from a message must not collide - also case-insensitively - with a patch in ANY of
    the three lists: the same subject is used again after the first patch was hidden / popped, by
    `stg new -m`, `stg squash -m` and `stg new` + `stg edit -m`-less refresh paths"""
    problems = []
    runs = 0
    for where in ("hidden", "unapplied", "applied"):
        for second in ("Fix the thing", "fix THE thing"):
            with repo.Scratch("c14h") as r:
                r.init_repo()
                r.stg(stg, ["init"])
                r.stg(stg, ["new", "-m", "Fix the thing"])
                first = r.stg(stg, ["series", "--noprefix", "-a"]).stdout.split()
                if where == "hidden":
                    r.stg(stg, ["hide", first[0]])
                elif where == "unapplied":
                    r.stg(stg, ["pop"])
                for argv in (["new", "-m", second], ["new", "-m", "other one"], ["new", "-m", "more"],
                             ["squash", "-m", second, "other-one", "more"]):
                    p = r.stg(stg, argv)
                    runs += 1
                    series = [x for x in r.stg(stg, ["series", "--noprefix", "-a"]).stdout.split("\n") if x]
                    low = [x.lower() for x in series]
                    refs = r.git(["for-each-ref", "--format=%(refname)", "refs/patches/main/"]).stdout.split()
                    if len(set(low)) != len(low) or len(refs) != len(series):
                        problems.append({"argv": argv, "where": where, "exit": p.returncode, "series": series,
                                         "refs": refs, "invalid_ref_name": series[-1] if series else "",
                                         "why": "a derived name collides with a %s patch" % where})
                        break
    return runs, problems


def end_to_end(ctx, stg, driver, upath, n):
    """`stg new -m <subject>` in scratch repositories: the created patch name equals the
    model's make + uniquify; the name is a legal ref; no panic."""
    rng = ctx.rng
    problems = []
    runs = 0
    with repo.Scratch("c14") as r:
        r.init_repo()
        r.stg(stg, ["init"])
        existing = []
        for i in range(n):
            lim = rng.choice([None, None, 0, 1, 5, 12, 30])
            subj = gen_text.subject(rng) if rng.random() < 0.7 else gen_text.near_limit_subject(rng, lim or 30)
            subj = subj.replace("\x00", "")
            if not subj.strip() or subj.lstrip().startswith("#"):
                subj = "s" + subj.strip()
            if lim is None:
                r.git(["config", "--unset", "stgit.namelength"], check=False)
                eff = 30
            else:
                r.git(["config", "stgit.namelength", str(lim)])
                eff = lim
            p = r.stg(stg, ["new", "-m", subj])
            runs += 1
            if p.returncode != 0:
                if "panicked" in p.stderr or p.returncode not in (1, 2):
                    problems.append({"argv": ["new", "-m", subj], "namelength": lim, "exit": p.returncode,
                                     "stderr": p.stderr[-400:]})
                continue
            series = r.stg(stg, ["series", "--noprefix", "-a"]).stdout.split("\n")
            series = [x for x in series if x]
            new = [x for x in series if x not in existing]
            if len(new) != 1:
                problems.append({"argv": ["new", "-m", subj], "error": "expected one new patch", "new": new})
                existing = series
                continue
            got = new[0]
            # model prediction: make (first line of the *prettified* message = subject's first
            # non-blank line) then uniquify against the existing names
            m1 = funcorr.run_model(driver, upath, [["make", "1", str(eff), hx(subj)]])[0]
            if m1.startswith("ok "):
                m2 = funcorr.run_model(driver, upath, [["uniquify", m1[3:], "-", hxlist(existing)]])[0]
                want = unhx(m2[3:]) if m2.startswith("ok ") else m2
            else:
                want = m1
            if "Σ" not in subj and want != got:
                problems.append({"argv": ["new", "-m", subj], "namelength": lim, "existing": existing,
                                 "model": want, "impl": got})
            bad = git_check_names([got], r.path)
            if bad:
                problems.append({"argv": ["new", "-m", subj], "invalid_ref_name": got})
            low = [x.lower() for x in series]
            if len(set(low)) != len(low):
                problems.append({"argv": ["new", "-m", subj], "namelength": lim, "existing": existing,
                                 "invalid_ref_name": got, "why": "derived name collides with an existing patch",
                                 "series": series})
            # spread the existing names over applied / unapplied / hidden
            k = rng.random()
            if k < 0.3:
                r.stg(stg, ["hide", "--", got if not got.startswith("-") else "\\" + got])
            elif k < 0.55:
                r.stg(stg, ["pop"])
            existing = series
    return runs, problems


def run(ctx):
    # names made inside whole commands (repair's names for plain commits, uncommit's generated names,
    # pick, squash, new, rename): every history keeps every name valid and non-colliding, also with
    # hidden patches; model and implementation agree on them
    from . import histcheck
    histcheck.run_property(ctx, [("REPAIR", 2), ("COMMIT", 2), ("BASIC", 1)], ["c01"], n_quick=18, n_thorough=300,
                           nsteps=32 if ctx.quick() else 45, own_oracle="c14")
    hist_cov = {k: ctx.coverage.get(k) for k in ("evaluations", "scenarios", "command_distribution", "exit_distribution",
                                                 "model_impl_disagreements", "direct_oracle_failures")}
    stg = common.build_stg()
    broken = []      # the Coq gate already ran (and reported) inside run_property
    driver = common.build_driver()
    upath = funcorr.unicode_dump(stg)
    unicode_tie(ctx, stg, driver, upath, broken)

    if ctx.quick():
        n_make, n_uniq, n_val, n_e2e, n_git = 6000, 2500, 2500, 25, 150
    else:
        n_make, n_uniq, n_val, n_e2e, n_git = 200000, 60000, 60000, 300, 3000

    reqs, meta = gen_cases(ctx, n_make, n_uniq, n_val)
    results = funcorr.run_both(stg, driver, upath, reqs)
    disagreements = []
    oracle_failures = []
    distinct = set()
    kinds = {}
    produced = []
    for (req, impl, model), m in zip(results, meta):
        kinds[m[0]] = kinds.get(m[0], 0) + 1
        key = (req[0], impl)
        distinct.add(key)
        if impl != model:
            disagreements.append({"request": req, "decoded": m, "impl": impl, "model": model})
        fail = direct_oracle(m, impl)
        if fail:
            oracle_failures.append({"request": req, "decoded": m, "impl": impl, "why": fail})
        if impl.startswith("ok ") and m[0] in ("make", "uniquify", "fromstr"):
            produced.append((m, unhx(impl[3:])))
        # bound (direct, on the implementation's result)
        if m[0] == "make" and impl.startswith("ok "):
            lim = m[3]
            if lim not in ("-", "0"):
                name = unhx(impl[3:])
                if utf8len(name) > int(lim) and "-" in name:
                    oracle_failures.append({"request": req, "decoded": m, "impl": impl,
                                            "why": "name longer than limit although it has more than one word"})
    # independent oracle on a sample of accepted / produced names
    rng = ctx.rng
    os.makedirs(os.path.join(common.CACHE, "run"), exist_ok=True)
    # uniquify only appends a suffix: its result can be judged only when the name it was given is
    # itself acceptable (the generator also feeds it raw, invalid names to test totality)
    uniq_inputs = sorted({m[1] for m, _ in produced if m[0] == "uniquify"})
    bad_inputs = set(git_check_names(uniq_inputs, os.path.join(common.CACHE, "run"))) if uniq_inputs else set()
    sample = [n for m, n in produced if not (m[0] == "uniquify" and m[1] in bad_inputs)]
    rng.shuffle(sample)
    sample = sample[:n_git]
    bad = git_check_names(sample, os.path.join(common.CACHE, "run"))
    for n in bad:
        oracle_failures.append({"why": "git check-ref-format rejects a name stg accepted/produced", "name": n})

    e2e_runs, e2e_problems = end_to_end(ctx, stg, driver, upath, n_e2e)
    hc_runs, hc_problems = hidden_collision_probes(stg)
    e2e_runs += hc_runs
    e2e_problems += hc_problems

    # corpus of minimized earlier failures (runs every time)
    corpus_problems = run_corpus(stg, driver, upath)

    ctx.obligations += 2  # function-level correspondence, end-to-end correspondence
    if not disagreements and not corpus_problems:
        ctx.discharged += 1
    if not e2e_problems:
        ctx.discharged += 1

    ctx.coverage.update({
        "evaluations": len(reqs) + e2e_runs,
        "distinct_nontrivial": len(distinct),
        "rule": "requests generated from one PRNG (seed %d) by harness/gen_text.py; distinct = distinct "
                "(function, implementation result) pairs" % ctx.seed,
        "input_distribution": kinds,
        "samples": [{"request": r, "impl": i, "model": m} for (r, i, m) in results[:3]]
                   + [{"request": r, "impl": i, "model": m} for (r, i, m) in results[n_make:n_make + 2]],
        "traces_validated_against_impl": len(reqs) + e2e_runs,
        "git_check_ref_format_checked": len(sample),
        "end_to_end_stg_new": e2e_runs,
        "disagreements": len(disagreements),
        "history_level": hist_cov,
    })
    ctx.coverage["evaluations"] += hist_cov.get("evaluations") or 0
    ctx.assumptions += [
        "String::to_lowercase acts per scalar value except for U+03A3 (final sigma); the model's instance is "
        "lower_of_table with an arbitrary position predicate; inputs containing U+03A3 are excluded from the "
        "model diff and covered by the direct oracles only",
        "git check-ref-format rules are about ASCII bytes, so the transcription git_component_ok over scalar "
        "values agrees with git on UTF-8 (validated on a sample every run)",
    ]

    # ---- verdict
    for f in oracle_failures[:3]:
        common.violation(ctx, {"obligation": "direct-oracle:C14", "case": f}, found_input=True, hint="oracle-")
    for d in (disagreements + corpus_problems)[:3]:
        # a disagreement is a violation only if the property itself fails on the input;
        # the direct oracle above decides that.  Otherwise the tie is broken.
        why = direct_oracle(tuple(d["decoded"]), d["impl"]) if "decoded" in d else None
        common.violation(ctx, {"obligation": "correspondence:C14:function", "case": d},
                         found_input=bool(why) or d["impl"] in ("PANIC",), hint="corr-")
    for pb in e2e_problems[:3]:
        is_fail = "invalid_ref_name" in pb or "stderr" in pb
        common.violation(ctx, {"obligation": "correspondence:C14:end-to-end", "case": pb},
                         found_input=is_fail, hint="e2e-")
    if broken and not ctx.violations:
        common.violation(ctx, {"obligation": "Properties/C14.v", "broken": broken,
                               "searched": "function-level and end-to-end correspondence found no failing input"},
                         found_input=False, hint="proof-")
    elif broken:
        ctx.coverage["broken_obligations"] = broken


def run_corpus(stg, driver, upath):
    path = os.path.join(common.VERIF, "corpus", "C14.jsonl")
    if not os.path.exists(path):
        return []
    reqs = [json.loads(l)["request"] for l in open(path) if l.strip()]
    if not reqs:
        return []
    out = []
    for req, impl, model in funcorr.run_both(stg, driver, upath, reqs):
        if impl != model or impl == "PANIC":
            out.append({"request": req, "impl": impl, "model": model})
    return out


def replay(ctx, path):
    doc = json.load(open(path))
    if "scenario" in doc:
        from . import histcheck
        return histcheck.replay_scenario(ctx, path, ["c01"])
    case = doc.get("case", {})
    stg = common.build_stg()
    if "request" in case:
        impl = funcorr.run_impl(stg, [case["request"]])[0]
        print("impl:", impl)
        bad = impl == "PANIC" or (case.get("model") not in (None, impl))
        return 1 if bad else 0
    if "argv" in case:
        with repo.Scratch("c14r") as r:
            r.init_repo()
            r.stg(stg, ["init"])
            if case.get("namelength") is not None:
                r.git(["config", "stgit.namelength", str(case["namelength"])])
            for n in case.get("existing", []):
                r.stg(stg, ["new", "-m", "x", n])
            p = r.stg(stg, case["argv"])
            print("exit:", p.returncode, p.stderr[-300:])
            return 1 if (p.returncode not in (0, 1, 2, 3) or "panicked" in p.stderr) else 0
    print("nothing replayable in", path)
    return 1
