"""C09 - a conflicting push halts in a well-defined, undoable state

Deciding method: Coq theorems (Properties/C09.v) about the stack / command model
(Model/Stack.v, Model/Cmd.v), tied to the code by the translator (Gen/*.v) and by history-level
differential testing of the extracted model against the real stg, with direct oracles on the
real repository after every command."""

from . import histcheck

LEVEL = "proof"
PROFILES = [('REORDER', 3), ('UNDO', 1), ('NOCONF', 2)]
ORACLES = ['c09', 'content', 'c02']


def run(ctx):
    histcheck.run_property(ctx, PROFILES, ORACLES, n_quick=48, n_thorough=800, nsteps=32 if ctx.quick() else 45,
                           own_oracle="c09")


def replay(ctx, path):
    return histcheck.replay_scenario(ctx, path, ORACLES)
