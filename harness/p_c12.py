"""C12 - commit and uncommit move the stack base without rewriting history

Deciding method: Coq theorems (Properties/C12.v) about the stack / command model, tied to
the code by the translator (Gen/*.v) and by history-level differential testing of the
extracted model against the real stg, with direct oracles on the real repository."""

from . import histcheck

LEVEL = "proof"
PROFILES = [('COMMIT', 4), ('BASIC', 1)]
ORACLES = ['prev', 'c02', 'c01']


def run(ctx):
    histcheck.run_property(ctx, PROFILES, ORACLES, n_quick=48, n_thorough=700, nsteps=32 if ctx.quick() else 45,
                           own_oracle="c12")


def replay(ctx, path):
    return histcheck.replay_scenario(ctx, path, ORACLES)
