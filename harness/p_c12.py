"""C12 - commit and uncommit move the stack base without rewriting history

Deciding method: Coq theorems (Properties/C12.v) about the stack / command model, tied to
the code by the translator (Gen/*.v) and by history-level differential testing of the
extracted model against the real stg, with direct oracles on the real repository."""

import subprocess

from . import common, histcheck, repo

LEVEL = "proof"
PROFILES = [('COMMIT', 4), ('BASIC', 1)]
ORACLES = ['prev', 'c02', 'c01']


def uncommit_probes(ctx, stg):
    """`stg uncommit` over a history with a merge commit and down to the root: merge and root
    commits are refused (also as the inclusive --to target), a refusal changes nothing, a success
    turns exactly the commits just below the base into applied patches in order, without touching
    head, index or work tree"""
    failures = []
    n = 0

    def build(r):
        r.init_repo()                                   # root commit R
        for nm in ("A", "A2"):
            r.write(nm + ".txt", nm + "\n")
            r.git(["add", "-A"])
            r.git(["commit", "-q", "-m", "commit " + nm])
        r.git(["checkout", "-q", "-b", "side", "HEAD~1"])
        r.write("side.txt", "s\n")
        r.git(["add", "-A"])
        r.git(["commit", "-q", "-m", "side work"])
        r.git(["checkout", "-q", "main"])
        r.git(["merge", "-q", "--no-ff", "-m", "merge side", "side"])     # M
        for nm in ("B", "C"):
            r.write(nm + ".txt", nm + "\n")
            r.git(["add", "-A"])
            r.git(["commit", "-q", "-m", "commit " + nm])
        r.stg(stg, ["init"])
        g = lambda rev: r.rev(rev)
        return {"C": g("HEAD"), "B": g("HEAD~1"), "M": g("HEAD~2"), "A2": g("HEAD~3"), "A": g("HEAD~4"),
                "R": g("HEAD~5")}

    def snap(r):
        return (r.rev("HEAD"), r.git(["write-tree"]).stdout, r.git(["status", "--porcelain"]).stdout,
                r.stg(stg, ["series", "--noprefix", "-a"]).stdout, r.rev("refs/stacks/main"))

    # (argv, expected outcome): the list of commits (bottom first) that become patches, or None = refused
    cases = [(["-n", "1"], ["C"]), (["-n", "2"], ["B", "C"]), (["-n", "3"], None), (["-n", "4"], None),
             (["--to", "M"], None), (["--to", "M", "-x"], ["B", "C"]), (["--to", "B"], ["B", "C"]),
             (["--to", "B", "-x"], ["C"]), (["--to", "A2"], None), (["--to", "A"], None), (["--to", "R"], None),
             (["u1", "u2"], ["B", "C"]), (["u1", "u2", "u3"], None), ([], ["C"])]
    for args, want in cases:
        with repo.Scratch("c12u") as r:
            ids = build(r)
            argv = ["uncommit"] + [ids.get(a, a) if a in ids and args and args[0] == "--to" else a for a in args]
            before = snap(r)
            p = r.stg(stg, argv)
            after = snap(r)
            n += 1
            probs = []
            if "panicked" in p.stderr:
                probs.append("panic")
            if want is None:
                if p.returncode == 0:
                    probs.append("accepted although a merge or root commit would become a patch")
                if before != after:
                    probs.append("refused but something changed")
            else:
                if p.returncode != 0:
                    probs.append("refused: %s" % p.stderr.strip()[-120:])
                else:
                    if before[:3] != after[:3]:
                        probs.append("head, index or work tree changed")
                    names = after[3].split()
                    got = [r.rev("refs/patches/main/" + x) for x in names]
                    if got != [ids[k] for k in want]:
                        probs.append("applied patches are not the commits %r in order" % want)
            if probs:
                failures.append({"obligation": "direct-oracle:C12:uncommit", "argv": ["uncommit"] + args,
                                 "exit": p.returncode, "problems": probs, "stderr": p.stderr[-300:]})
    ctx.obligations += 1
    if not failures:
        ctx.discharged += 1
    for f in failures[:4]:
        common.violation(ctx, f, found_input=True, hint="probe-")
    ctx.coverage["uncommit_probes"] = n
    ctx.coverage["evaluations"] = ctx.coverage.get("evaluations", 0) + n


def run(ctx):
    uncommit_probes(ctx, common.build_stg())
    histcheck.run_property(ctx, PROFILES, ORACLES, n_quick=48, n_thorough=700, nsteps=32 if ctx.quick() else 45,
                           own_oracle="c12")


def replay(ctx, path):
    import json
    if str(json.load(open(path)).get("obligation", "")).startswith("direct-oracle:C12:uncommit"):
        uncommit_probes(ctx, common.build_stg())
        print("uncommit probes: %d violation(s)" % len(ctx.violations))
        return 1 if ctx.violations else 0
    return histcheck.replay_scenario(ctx, path, ORACLES)
