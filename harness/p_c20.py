"""C20 - stg always terminates with a documented exit status and never panics.

Deciding method: Coq theorems (Properties/C20.v): documented exit statuses, totality of
name derivation and locator resolution, no modelled command panics from a well-formed world
(outside the known class), every potential panic site of the modelled modules is a reviewed
one (regenerated site list).  Tie: history-level differential testing over all command
profiles (the model predicts panics too), plus a command-line fuzzer over all sub-commands as a
search for failing inputs outside the model."""

import json

from . import cli_fuzz, common, histcheck

LEVEL = "proof"
PROFILES = [("BASIC", 3), ("REORDER", 1), ("UNDO", 1), ("REPAIR", 1.5), ("COMMIT", 1), ("BIG", 0.5)]
ORACLES = ["c20"]


def run(ctx):
    histcheck.run_property(ctx, PROFILES, ORACLES, n_quick=56, n_thorough=900, nsteps=32 if ctx.quick() else 45,
                           own_oracle="c20", with_extras=True)
    stg = common.build_stg()
    known = histcheck.load_known("C20")
    n = 1400 if ctx.quick() else 40000
    total, failures, dist = cli_fuzz.run(stg, ctx.rng, n, tag="c20f")
    n_rev, f_rev = cli_fuzz.run_rev_probes(stg, ("stack",) if ctx.quick() else ("stack", "moved", "empty"),
                                           cli_fuzz.QUICK_REVS if ctx.quick() else None)
    n_b, f_b = cli_fuzz.run_boundary_probes(stg, seed=ctx.seed, quick=ctx.quick())
    total += n_rev + n_b
    failures += f_rev + f_b
    ctx.coverage["boundary_probes"] = n_b
    ctx.coverage["revision_probes"] = n_rev
    seen = set()
    for f in failures:
        k = histcheck.match_known(known, {"cmd": {"c": f["argv"][0]}, "why": "exit status 'panic'" if f["kind"] == "panic"
                                          else f["kind"], "stderr": f["stderr"]})
        if k:
            if k["id"] not in seen and not any(x.startswith(k["id"] + ":") for x in ctx.known):
                seen.add(k["id"])
                ctx.known.append("%s: %s" % (k["id"], k["what"]))
            continue
        key = (f["kind"], str(f["site"]))
        if key in seen:
            continue
        seen.add(key)
        common.violation(ctx, {"obligation": "direct-oracle:C20:cli-fuzz", "why": f["kind"], "site": f["site"],
                               "repository_state": f["state"], "history": f["history"], "argv": f["argv"],
                               "exit": f["exit"], "stderr": f["stderr"]}, found_input=True, hint="fuzz-")
    ctx.coverage["cli_fuzz_commands"] = total
    ctx.coverage["cli_fuzz_exit_distribution"] = dist
    ctx.coverage["evaluations"] = ctx.coverage.get("evaluations", 0) + total
    ctx.assumptions.append("commands outside the model (import, export, email, pull, rebase, sync, fold, pick, squash, "
                           "edit, branch, ...) are covered by the command-line fuzzer only (searched, not proved)")


def replay(ctx, path):
    doc = json.load(open(path))
    if "argv" in doc:
        from . import repo
        stg = common.build_stg()
        with repo.Scratch("c20r") as r:
            cli_fuzz.make_state(r, stg, doc["repository_state"])
            for h in doc.get("history", []):
                r.stg(stg, h, timeout=20)
            p = r.stg(stg, doc["argv"], timeout=20)
            bad = cli_fuzz.classify(p)
            print("exit", p.returncode, bad, p.stderr[-300:])
            return 1 if bad else 0
    return histcheck.replay_scenario(ctx, path, ORACLES)
