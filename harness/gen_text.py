"""Generators of strings for the text-layer correspondence (names, subjects, locators)."""

ASCII_PUNCT = list("!\"#$%&'()*+,/:;<=>?@[\\]^`{|}~")
SPECIAL_WORDS = [
    ".lock", "lock", "foo.lock", ".LOCK", "x.Lock", "{base}", "@", "@{", "..", ".", "-", "--",
    "-.", ".-", "~1", "^", "\\-", "\\", "_", "__", "patch", "Patch", "PATCH", "patch-1",
]
UNICODE_CHARS = [
    "é", "É", "ß", "İ", "ı", "K", "ǅ", "ẞ", " ",
    " ", "​", "‏", "‮", "　", "\u0085", "\u009f", "\u0080", "\U0001f63c",
    "中", "文", "Ж", "ж", "Ω", "ω", "ﬁ", "ŉ", "ᾈ",
    " ", " ", " ", "­", "́", "̇", "﻿", "\U00010400", "\U0001e900",
]
WORDS = ["fix", "add", "the", "Bug", "in", "parser", "for", "widget", "WIP", "v2", "a", "I",
         "update", "README", "md", "x86", "64", "io_uring", "long" * 5, "z" * 31]
CONTROL = ["\t", "\r", "\n", "\x0b", "\x0c", "\x00", "\x1f", "\x7f"]


def rand_word(rng):
    k = rng.random()
    if k < 0.45:
        return rng.choice(WORDS)
    if k < 0.60:
        return rng.choice(SPECIAL_WORDS)
    if k < 0.75:
        return "".join(rng.choice(UNICODE_CHARS + list("abcXYZ019")) for _ in range(rng.randint(1, 6)))
    if k < 0.85:
        return str(rng.choice([0, 1, 7, 9, 10, 99, 18446744073709551614, 18446744073709551615,
                               18446744073709551616, 10 ** 23 - 1, 7] + [rng.randint(0, 10 ** rng.randint(1, 25))]))
    n = rng.randint(1, 12)
    return "".join(rng.choice("abcdefghijklmnopqrstuvwxyzABCDEFGHIJKLMNOPQRSTUVWXYZ0123456789_") for _ in range(n))


def rand_sep(rng):
    k = rng.random()
    if k < 0.55:
        return " "
    if k < 0.70:
        return rng.choice(["-", ".", "_", "--", "..", ".-", "-.", " - ", ". "])
    if k < 0.85:
        return rng.choice(ASCII_PUNCT)
    if k < 0.92:
        return rng.choice(CONTROL)
    return rng.choice([" ", " ", "　", "​", "  "])


def subject(rng, sigma=False):
    """A commit-message-like raw string (possibly multi-line)."""
    nwords = rng.choice([0, 1, 1, 2, 3, 4, 5, 6, 8, 12])
    parts = []
    for i in range(nwords):
        parts.append(rand_word(rng))
        if i + 1 < nwords:
            parts.append(rand_sep(rng))
    s = "".join(parts)
    k = rng.random()
    if k < 0.15:
        s = rng.choice(["\n", "\n\n", " \n\t\n", "\r\n"]) + s
    if k > 0.8:
        s = s + rng.choice(["\n", "\n\nbody text\n", "\r\nbody", ".lock", ".", "-", " "])
    if sigma:
        s = s.replace("a", "Σ", 1) + rng.choice(["Σ", "Σx", ""])
    else:
        s = s.replace("Σ", "S")
    return s


def near_limit_subject(rng, limit):
    """Subjects whose sanitised form has a word boundary near the limit and a .lock word
    near it (the F1 shape)."""
    w1 = rng.choice(["foo.lock", "a.lock.lock", "x", "ab.LOCK", "q.lock-", "lock", "r.s.lock"])
    pad = "x" * max(0, limit - len(w1) + rng.randint(-2, 3))
    return w1 + rng.choice([" ", "-", " - ", "/"]) + pad + rng.choice(["", " tail", ".lock"])


def candidate_name(rng):
    """Mostly-valid patch names (for uniquify / validate)."""
    k = rng.random()
    if k < 0.5:
        base = rng.choice(["patch", "p", "fix", "Fix", "a-b", "x.y", "été", "-lead", "5", "abc123", "p+1", "v"])
    else:
        base = "".join(rng.choice("abcXYZ_-.+éЖ") for _ in range(rng.randint(1, 8))).strip(".") or "p"
        base = base.replace("..", ".")
    k = rng.random()
    if k < 0.35:
        base += rng.choice(["1", "-1", "9", "09", "007", "99", "-99", "0"])
    elif k < 0.5:
        base += str(rng.choice([18446744073709551614, 18446744073709551615, 18446744073709551616, 10 ** 23 - 1]))
    return base


def case_twin(rng, s):
    return "".join(c.upper() if rng.random() < 0.5 else c.lower() for c in s)


def raw_string(rng):
    """Arbitrary (often invalid) strings for validate / from_str / parser."""
    n = rng.choice([0, 1, 1, 2, 3, 4, 6, 9])
    alphabet = list("abcXY09_-.+@{}~^:/\\?[*] ") + CONTROL + UNICODE_CHARS[:12] + ["\x7f"]
    s = "".join(rng.choice(alphabet) for _ in range(n))
    k = rng.random()
    if k < 0.15:
        s += rng.choice([".lock", ".", "@{", "..", ".lock.x"])
    elif k < 0.25:
        s = rng.choice(["\\-", "\\", "\\\\-", ".", "@", "{base}"]) + s
    return s
