"""Function-level correspondence: the same request lines go to `stg verif-eval` (the real
code, hooks on) and to ocaml/driver (the model extracted from Coq); outputs are compared
line by line."""

import os
import subprocess

from . import common


def hx(s):
    """hex of UTF-8 bytes; '-' for the empty string"""
    if isinstance(s, str):
        s = s.encode("utf-8", "surrogatepass")
    return s.hex() if s else "-"


def unhx(h):
    return "" if h == "-" else bytes.fromhex(h).decode("utf-8")


def hxlist(l):
    return ",".join(hx(x) for x in l) if l else "-"


def unicode_dump(stg):
    """Dump the Unicode facts from the real binary (cached per binary mtime)."""
    path = os.path.join(common.CACHE, "unicode.txt")
    stamp = path + ".stamp"
    key = "%s %s" % (stg, os.path.getmtime(stg))
    if os.path.exists(path) and os.path.exists(stamp) and open(stamp).read() == key:
        return path
    p = subprocess.run([stg, "verif-eval"], input="1\tunicode\n", capture_output=True, text=True, timeout=300)
    lines = [l for l in p.stdout.split("\n") if l and not l.startswith("1\t")]
    with open(path, "w") as f:
        f.write("\n".join(lines) + "\n")
    with open(stamp, "w") as f:
        f.write(key)
    return path


def _pipe(cmd, text, timeout=900):
    p = subprocess.run(cmd, input=text, capture_output=True, text=True, timeout=timeout)
    res = {}
    for line in p.stdout.split("\n"):
        if "\t" in line:
            i, r = line.split("\t", 1)
            res[i] = r
    return res, p


def run_both(stg, driver, unicode_path, requests, driver_extra=()):
    """requests: list of field lists (without id).  Returns list of
    (fields, impl_result, model_result)."""
    text = "".join("%d\t%s\n" % (i, "\t".join(r)) for i, r in enumerate(requests))
    impl, _ = _pipe([stg, "verif-eval"], text)
    model, _ = _pipe([driver, "--unicode", unicode_path] + list(driver_extra), text)
    out = []
    for i, r in enumerate(requests):
        out.append((r, impl.get(str(i), "MISSING"), model.get(str(i), "MISSING")))
    return out


def run_impl(stg, requests):
    text = "".join("%d\t%s\n" % (i, "\t".join(r)) for i, r in enumerate(requests))
    impl, _ = _pipe([stg, "verif-eval"], text)
    return [impl.get(str(i), "MISSING") for i in range(len(requests))]


def run_model(driver, unicode_path, requests, driver_extra=()):
    text = "".join("%d\t%s\n" % (i, "\t".join(r)) for i, r in enumerate(requests))
    model, _ = _pipe([driver, "--unicode", unicode_path] + list(driver_extra), text)
    return [model.get(str(i), "MISSING") for i in range(len(requests))]
