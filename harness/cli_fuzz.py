"""Command-line fuzzer for C20: every sub-command x options x boundary arguments x repository
states; oracle: exit status in {0,1,2,3}, no panic, diagnostic on stderr when not 0, bounded
time.  A search, not a proof."""

import os
import random
import re
import subprocess

from . import common, repo

EXCLUDE = {"completion", "email", "help"}       # email send would start git send-email
ARGS = ["p0", "p1", "p2", "h0", "nope", "P0", "0", "1", "-1", "5", "99999999999999999999", "18446744073709551615",
        "-9223372036854775808", "9223372036854775807", "", " ", "..", "p0..p2", "p2..p0", "p1..", "..p1", "@", "~",
        "^", "{base}", "{base}+1", "@~5", "p0~1", "p0+9", "abc123", "deadbeef", "é", "\U0001f63c", "a b", "a/b",
        "x.lock", ".hidden", "-", "--", "\\-x", "HEAD", "HEAD~1", "refs/stacks/main", "refs/stacks/main~1", "main",
        "other", "no/such/branch", "f0.txt", "nofile.txt", "@{", "p0..p1..p2", "~0", "^-1", "+", "+0",
        "orphan", "orphan-tag", "HEAD^{tree}", "HEAD:f0.txt", "HEAD~100", "annotated"]

# revisions of every kind for the deterministic probes: an unrelated root commit, a tree, a
# blob, an annotated tag, a missing ancestor, a state ref, garbage
REVS = ["orphan", "HEAD^{tree}", "HEAD:f0.txt", "annotated", "HEAD~100", "refs/stacks/main", "refs/stacks/main~1",
        "no/such", "", "{base}", "p0", "p0~1", "h0", "HEAD", "main", "other", "0000000000000000000000000000000000000000"]

REV_PROBES = [["uncommit", "--to", "REV"], ["rebase", "REV"], ["rebase", "--nopush", "REV"], ["reset", "REV"],
              ["reset", "--hard", "REV"], ["pick", "REV"], ["pick", "--fold", "REV"], ["pick", "--unapplied", "REV"],
              ["id", "REV"], ["show", "REV"], ["diff", "-r", "REV"], ["diff", "-r", "REV..REV"], ["files", "REV"],
              ["name", "REV"], ["edit", "--set-tree", "REV", "-m", "x"], ["push", "--set-tree", "p2"],
              ["new", "-m", "n", "--sign-by", "REV"], ["branch", "--create", "nb", "REV"], ["log", "REV"],
              ["series", "--missing", "REV"], ["sync", "-B", "REV", "p0"], ["pick", "-B", "REV", "p0"],
              ["refresh", "--set-tree", "REV"], ["fold", "--base", "REV", "nofile.txt"], ["sink", "--to", "REV"],
              ["uncommit", "-n", "1", "--to", "REV"], ["commit", "REV"], ["squash", "-m", "s", "REV", "p0"]]


def commands(stg):
    p = subprocess.run([stg, "completion", "list", "commands"], capture_output=True, text=True)
    return [c for c in p.stdout.split() if c not in EXCLUDE]


_opt_cache = {}


def options(stg, cmd):
    if cmd in _opt_cache:
        return _opt_cache[cmd]
    p = subprocess.run([stg] + cmd.split() + ["--help"], capture_output=True, text=True)
    opts = sorted(set(re.findall(r"(?<![\w-])(--[a-z][a-z0-9-]+)", p.stdout)))
    opts = [o for o in opts if o not in ("--help", "--color", "--edit", "--interactive", "--save-template",
                                         "--file", "--url", "--stdin", "--diff")]
    subs = []
    if cmd == "branch":
        subs = ["--list", "--create", "--clone", "--rename", "--protect", "--unprotect", "--delete", "--cleanup",
                "--describe"]
    _opt_cache[cmd] = (opts, subs)
    return _opt_cache[cmd]


STATES = ["stack", "empty", "uninit", "uninit-other", "conflict", "detached", "moved", "hidden-only"]


def make_state(r, stg, state):
    if state == "boundary":
        return make_boundary_state(r, stg)
    r.init_repo()
    r.write("f0.txt", "base\n")
    r.git(["add", "-A"])
    r.git(["commit", "-q", "-m", "f0"])
    # an unrelated root commit (as from an orphan docs branch or a fetched foreign history)
    # and an annotated tag: present in every state
    tree = r.git(["hash-object", "-t", "tree", "-w", "/dev/null"]).stdout.strip()
    oc = r.git(["commit-tree", tree, "-m", "unrelated root"]).stdout.strip()
    r.git(["branch", "orphan", oc])
    r.git(["tag", "orphan-tag", oc])
    r.git(["tag", "-a", "-m", "annotated tag", "annotated", "HEAD"])
    if state == "uninit":
        return
    if state == "uninit-other":
        # the current branch is a plain git branch; ANOTHER branch has a stack
        r.git(["checkout", "-q", "-b", "other"])
        r.stg(stg, ["init"])
        for n in ("p0", "p1"):
            r.stg(stg, ["new", "-m", "patch %s" % n, n])
        r.git(["checkout", "-q", "main"])
        return
    r.stg(stg, ["init"])
    if state == "empty":
        return
    for i, n in enumerate(["p0", "p1", "p2"]):
        r.stg(stg, ["new", "-m", "patch %s" % n, n])
        r.write("f0.txt", "base\n%s\n" % n if state != "conflict" else "%s\n" % n)
        r.write("g%d.txt" % i, n + "\n")
        r.git(["add", "-A"])
        r.stg(stg, ["refresh"])
    r.stg(stg, ["new", "-m", "hidden", "h0"])
    r.stg(stg, ["hide", "h0"])
    if state == "hidden-only":
        r.stg(stg, ["pop", "-a"])
        r.stg(stg, ["hide", "p0", "p1", "p2"])
        return
    r.stg(stg, ["pop", "-n", "1"])
    r.git(["branch", "other"])
    if state == "conflict":
        r.stg(stg, ["pop", "-a"])
        r.stg(stg, ["push", "p2"])        # conflicts on f0.txt
    elif state == "detached":
        r.git(["checkout", "-q", "--detach"])
    elif state == "moved":
        r.write("m.txt", "moved\n")
        r.git(["add", "-A"])
        r.git(["commit", "-q", "-m", "plain git commit on top"])


def gen_argv(rng, stg, cmds):
    cmd = rng.choice(cmds)
    opts, subs = options(stg, cmd)
    argv = [cmd]
    if subs and rng.random() < 0.8:
        argv.append(rng.choice(subs))
    for _ in range(rng.choice([0, 0, 0, 1, 1, 2])):
        if opts:
            o = rng.choice(opts)
            k = rng.random()
            if k < 0.6:
                argv.append(o)
            elif k < 0.85:
                argv += [o, rng.choice(ARGS)]
            else:
                argv.append(o + "=" + rng.choice(ARGS))
    if rng.random() < 0.15:
        argv.append("--")
    for _ in range(rng.choice([0, 1, 1, 2, 3])):
        argv.append(rng.choice(ARGS))
    return argv


def classify(p):
    if p.returncode == -999:
        return "timeout"
    if "panicked at" in p.stderr or p.returncode == 101:
        return "panic"
    if p.returncode < 0:
        return "signal:%d" % -p.returncode
    if p.returncode not in (0, 1, 2, 3):
        return "exit:%d" % p.returncode
    if p.returncode != 0 and not p.stderr.strip():
        return "silent-failure"
    return None


def panic_site(stderr):
    m = re.search(r"panicked at ([\w/.-]+:\d+):\d+:\s*\n?([^\n]*)", stderr)
    return (m.group(1), m.group(2)[:80]) if m else ("?", "")


def run(stg, rng, n, per_state=40, tag="fz"):
    cmds = commands(stg)
    failures = []
    total = 0
    dist = {}
    while total < n:
        state = STATES[(total // per_state) % len(STATES)]
        with repo.Scratch(tag) as r:
            make_state(r, stg, state)
            history = []
            for _ in range(per_state):
                if total >= n:
                    break
                argv = gen_argv(rng, stg, cmds)
                if any("\x00" in a for a in argv):
                    continue
                p = r.stg(stg, argv, timeout=20, env={"STGIT_VERIF_DIR": ""})
                total += 1
                dist[str(p.returncode)] = dist.get(str(p.returncode), 0) + 1
                bad = classify(p)
                if bad:
                    failures.append({"state": state, "history": list(history), "argv": argv, "kind": bad,
                                     "exit": p.returncode,
                                     "site": panic_site(p.stderr) if bad == "panic" else None,
                                     "stderr": p.stderr[-400:]})
                if p.returncode in (0, 3) or bad:
                    history.append(argv)      # commands that may have changed the repository
    return total, failures, dist


QUICK_REVS = ["orphan", "HEAD^{tree}", "HEAD:f0.txt", "annotated", "HEAD~100", "refs/stacks/main~1", "no/such", ""]


def run_rev_probes(stg, states=("stack", "moved", "empty"), revs=None, tag="fzr"):
    """every revision-taking command line x every kind of revision; the repository is rebuilt
    whenever a probe may have changed it"""
    failures = []
    total = 0
    for state in states:
        r = None
        try:
            for probe in REV_PROBES:
                for rev in (revs or REVS):
                    argv = [a.replace("REV", rev) for a in probe]
                    if r is None:
                        r = repo.Scratch(tag)
                        r.__enter__()
                        make_state(r, stg, state)
                    p = r.stg(stg, argv, timeout=20, env={"STGIT_VERIF_DIR": ""})
                    total += 1
                    bad = classify(p)
                    if bad:
                        failures.append({"state": state, "history": [], "argv": argv, "kind": bad, "exit": p.returncode,
                                         "site": panic_site(p.stderr) if bad == "panic" else None,
                                         "stderr": p.stderr[-400:]})
                    if p.returncode in (0, 3) or bad:
                        r.__exit__(None, None, None)
                        r = None
        finally:
            if r is not None:
                r.__exit__(None, None, None)
    return total, failures


BOUNDARY_PROBES = [
    ["sink", "--to", "p3", "p0"], ["sink", "--above", "p3", "p0"], ["sink", "--to", "p3", "p0", "p1"],
    ["sink", "--nopush", "--to", "p3", "p0"], ["sink", "--to", "p0", "p3"], ["sink", "--above", "p0", "p3"],
    ["sink", "--to", "p3", "p4"], ["sink", "--to", "p3", "h0"], ["sink", "p3"], ["sink", "p0"], ["sink", "--to", "p3", "p3"],
    ["float", "p0"], ["float", "p3"], ["float", "p0", "p3"], ["float", "--noapply", "p0"], ["float", "h0"],
    ["push", "-n", "1"], ["push", "-n", "2"], ["push", "-n", "-1"], ["push", "-n", "-2"], ["push", "--reverse", "-a"],
    ["pop", "-n", "4"], ["pop", "-n", "5"], ["pop", "-n", "-4"], ["pop", "-n", "-5"], ["pop", "p0"], ["pop", "p3"],
    ["pop", "--spill", "p3"], ["pop", "--spill", "p0"], ["goto", "p0"], ["goto", "p3"], ["goto", "p4"], ["goto", "h0"],
    ["delete", "p0"], ["delete", "p3"], ["delete", "--top"], ["delete", "--spill", "p3"], ["delete", "--spill", "p0"],
    ["delete", "p0..p3"], ["delete", "-a"], ["hide", "p0"], ["hide", "p3"], ["hide", "p0..p4"], ["unhide", "h0"],
    ["commit", "-n", "4"], ["commit", "-n", "5"], ["commit", "p3"], ["commit", "p0..p3"], ["commit", "-a"],
    ["uncommit", "-n", "1"], ["uncommit", "-n", "3"], ["rename", "p3", "p0"], ["rename", "p0", "P0"], ["rename", "h0", "p9"],
    ["squash", "-m", "s", "p0", "p3"], ["squash", "-m", "s", "p3", "p4"], ["clean"], ["spill"], ["undo"], ["undo", "-n", "50"],
    ["redo"], ["reset", "--hard"], ["new", "-m", "x", "p0"], ["new", "-m", "x", "P3"], ["refresh", "-p", "p0"], ["refresh", "-p", "h0"],
    ["pick", "p4"], ["pick", "--fold", "p0"], ["pick", "--revert", "p3"], ["sync", "-B", "other", "p0"], ["repair"],
]


def hidden_probes():
    """every patch-taking command with the hidden patch h0 alone, next to applied / unapplied patches,
    and as the end of a range (the boundary state has applied p0..p3, unapplied p4, hidden h0)"""
    sels = [["h0"], ["p1", "h0"], ["h0", "p4"], ["p3", "h0"], ["p3..h0"], ["h0..p4"], ["p2", "p3", "h0"]]
    cmds = [["commit"], ["commit", "--allow-empty"], ["delete"], ["hide"], ["unhide"], ["push"], ["push", "--noapply"],
            ["pop"], ["float"], ["float", "--noapply"], ["sink"], ["sink", "--to", "p1"], ["squash", "-m", "s"],
            ["pick"], ["pick", "--noapply"], ["show"], ["id"], ["export", "--stdout"], ["series"], ["files"],
            ["reset", "refs/stacks/main~2"]]
    out = []
    for c in cmds:
        for sel in sels:
            if c[0] == "id" and len(sel) > 1:
                continue
            out.append(c + sel)
    out += [["goto", "h0"], ["edit", "-m", "x", "h0"], ["rename", "h0", "p1"], ["refresh", "-p", "h0"],
            ["new", "-m", "x", "h0"], ["new", "-m", "x", "H0"], ["uncommit", "h0"], ["uncommit", "-n", "2", "h"]]
    return out


def make_boundary_state(r, stg):
    """applied p0..p3, unapplied p4, hidden h0, a second branch `other`"""
    r.init_repo()
    r.stg(stg, ["init"])
    for i, n in enumerate(["p0", "p1", "p2", "p3", "p4", "h0"]):
        r.stg(stg, ["new", "-m", "patch %s" % n, n])
        r.write("g%d.txt" % i, n + "\n")
        r.git(["add", "-A"])
        r.stg(stg, ["refresh"])
    r.stg(stg, ["pop", "-n", "2"])
    r.stg(stg, ["hide", "h0"])
    r.stg(stg, ["branch", "--clone", "other"])
    r.git(["checkout", "-q", "main"])


def run_boundary_probes(stg, tag="fzb", seed=1, quick=True):
    failures = []
    total = 0
    r = None
    hp = hidden_probes()
    if quick:
        hp = random.Random(seed).sample(hp, 45)
    try:
        for argv in BOUNDARY_PROBES + hp:
            if r is None:
                r = repo.Scratch(tag)
                r.__enter__()
                make_boundary_state(r, stg)
            p = r.stg(stg, argv, timeout=20, env={"STGIT_VERIF_DIR": ""})
            total += 1
            bad = classify(p)
            if bad:
                failures.append({"state": "boundary", "history": [], "argv": argv, "kind": bad, "exit": p.returncode,
                                 "site": panic_site(p.stderr) if bad == "panic" else None, "stderr": p.stderr[-400:]})
            # every probe starts from the same shape: rebuilt whenever something may have changed
            if p.returncode in (0, 3) or bad:
                r.__exit__(None, None, None)
                r = None
    finally:
        if r is not None:
            r.__exit__(None, None, None)
    return total, failures
