"""C03: see harness/protocheck.py (run_c03) and Properties/C03.v."""
import json

from . import protocheck

LEVEL = "proof"


def run(ctx):
    protocheck.run_c03(ctx)


def replay(ctx, path):
    doc = json.load(open(path))
    print(json.dumps({k: doc.get(k) for k in ("why", "case", "setup", "cmd", "observer", "point", "nth", "schedule")}, indent=1))
    print("re-run the case with: ./check C03 (the corpus case above is part of every run)")
    return 1
