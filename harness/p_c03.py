"""C03: see harness/protocheck.py (run_c03) and Properties/C03.v."""
import json

from . import common, dirtmatrix, histcheck, protocheck

LEVEL = "proof"
PROFILES = [("REPAIR", 2), ("UNDO", 1), ("BASIC", 1), ("DIRTY", 2)]
ORACLES = ["failkeeps"]


def run(ctx):
    protocheck.run_c03(ctx)
    # commands that fail on their own (no injected fault), also on branches moved by plain git
    histcheck.run_property(ctx, PROFILES, ORACLES, n_quick=32, n_thorough=500, nsteps=32 if ctx.quick() else 45,
                           own_oracle="c03")
    # commands that fail for ordinary reasons in a work tree with local changes (real repository,
    # no model): a failure leaves refs, index and every work-tree file as they were
    dirtmatrix.check(ctx, common.build_stg(), "C03", "c03m")


def replay(ctx, path):
    doc = json.load(open(path))
    if "scenario" in doc:
        return histcheck.replay_scenario(ctx, path, ORACLES)
    if str(doc.get("obligation", "")).endswith("dirt-matrix"):
        return dirtmatrix.replay(ctx, doc)
    print(json.dumps({k: doc.get(k) for k in ("why", "case", "setup", "cmd", "observer", "point", "nth", "schedule")}, indent=1))
    print("re-run the case with: ./check C03 (the corpus case above is part of every run)")
    return 1
