"""C01 - stack metadata is always well-formed and mirrored by the patch refs

Deciding method: Coq theorems (Properties/C01.v) about the stack / command model
(Model/Stack.v, Model/Cmd.v), tied to the code by the translator (Gen/*.v) and by history-level
differential testing of the extracted model against the real stg, with direct oracles on the
real repository after every command."""

from . import histcheck

LEVEL = "proof"
PROFILES = [('BASIC', 3), ('REORDER', 1), ('UNDO', 1), ('BIG', 0.5), ('REPAIR', 0.7), ('COMMIT', 1)]
ORACLES = ['c01']


def run(ctx):
    histcheck.run_property(ctx, PROFILES, ORACLES, n_quick=48, n_thorough=700, nsteps=32 if ctx.quick() else 45,
                           own_oracle="c01", with_extras=True)


def replay(ctx, path):
    return histcheck.replay_scenario(ctx, path, ORACLES)
