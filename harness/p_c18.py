"""C18 - export followed by import reproduces the patches.

Deciding method: Coq theorems (Properties/C18.v) about the byte-level model of the text side
(Model/Export.v: description split and template specialisation of `stg export`; split_patch,
Headers::parse_message, parse_name_email and the message assembly of `stg import`): the
default template renders to a fixed text, splitting loses nothing and cuts at the first
separator line, and for every description whose first line is a usable subject and whose body
contains no separator-like line and does not start with a header-like or indented line the
import reads back the same subject, author name, author e-mail and body and hands the
untouched rest to git apply.  Where the full statement is false of the faithful model
(`---` line in the message, header-like or indented first body line) the model proves the
refutation with a witness; these are replayed on the implementation and listed as known
findings F13, F14, F35.  Ties: function-level differential testing of the extracted model
(ocaml/edriver) against `stg verif-eval` (hook 3) on generated mostly-valid and malformed
inputs; every file written by the real `stg export` is compared byte for byte with the
model's export_file, and every patch created by the real `stg import` with the model's
import_file.  Direct oracle: export a generated series (text / binary / empty / non-UTF-8
contents, odd file names, removed and mode-changed files, multi-paragraph messages with
trailers, non-ASCII authors), import it on the same base through the series, single-file,
gzip, bzip2, tar, tar.gz and tar.bz2 forms (mbox separately) and compare name, tree, author and message of every patch; a patch
that does not apply must create nothing and leave the work tree untouched.
Partial: git diff-tree / git apply (the diff itself), gzip/bzip2/tar decoding and the mbox
form (git mailsplit / mailinfo) are outside the model; mbox is exercised by the direct oracle."""

import json
import os
import random
import subprocess

from . import common, funcorr, gate, repo

LEVEL = "proof"

H = funcorr.hx


def hb(b):
    return b.hex() if b else "-"


# ----------------------------------------------------------------------------- generators

SUBJECTS = ["ends with a no-break space\u00a0", "\u3000starts with an ideographic space", "fix the parser", "Add feature X", "émoji \U0001f63c subject", "subject: with colon", "a: b: c",
            "Revert \"something\"", "x", "fix #123 (again)", "WIP", "[PATCH 1/2] thing", "ßtraße läuft"]
GOOD_SUBJECTS = [x for x in SUBJECTS if x != "subject: with colon" and not x.startswith("\u3000")]
HEADERISH = ["From: Some One <some@one.org>", "from: lower <l@c>", "Author: A <a@b>", "Date: 2020-01-01 10:00:00 +0100",
             "Subject: inner subject", "Message-Id: <123@x>", "patch: some-name", "Patch:", "Patch:   ",
             "From: broken", "From: A <a@b> trailing", "FROM: UP <u@p>", "date: yesterday",
             "commit 0123abcd", "commit", "commit xyz"]
SEPISH = ["---", "--- ", "---\t", "--- a/file", "---  two", "----", "---x", "diff -ur a b", "diff --git a/x b/x",
          "Index: file.c", "Index:", " ---", "-- "]
BODY = ["\u3000ideographic indent", "trailing nbsp\u00a0", "\u2003em space both ends\u2003", "body line", "", "  indented line", "\tTabbed", "Signed-off-by: X Y <x@y.z>", "Reviewed-by: R <r@r>",
        "trailing spaces   ", "* bullet", "a:b", "http://example.com/x", "ünïcödé body", "line with \r in it",
        "    four spaces", "key: value"]
INVALID = [b"\xff\xfe", b"caf\xe9", b"\xc3", b"ok \xed\xa0\x80 surrogate"]


def gen_message(rng, malformed=False):
    """mostly exported-file-like text (as bytes)"""
    lines = []
    k = rng.random()
    if k < 0.15:
        lines.append(rng.choice(HEADERISH))
    if rng.random() < 0.9:
        lines.append(rng.choice(SUBJECTS if rng.random() < 0.8 else HEADERISH + SEPISH))
    if rng.random() < 0.8:
        lines.append("")
    if rng.random() < 0.7:
        lines.append(rng.choice(HEADERISH[:4]) if rng.random() < 0.8 else rng.choice(HEADERISH))
        if rng.random() < 0.8:
            lines.append("")
    for _ in range(rng.randint(0, 5)):
        x = rng.random()
        lines.append(rng.choice(BODY) if x < 0.75 else rng.choice(HEADERISH) if x < 0.9 else rng.choice(SEPISH))
    out = []
    for ln in lines:
        b = ln.encode("utf-8")
        if malformed and rng.random() < 0.15:
            b += rng.choice(INVALID)
        out.append(b + (b"\r\n" if rng.random() < 0.05 else b"\n"))
    data = b"".join(out)
    if rng.random() < 0.1 and data.endswith(b"\n"):
        data = data[:-1]
    if rng.random() < 0.1:
        data = b"\n\n" + data
    return data


def gen_content(rng, malformed=False):
    msg = gen_message(rng, malformed)
    tail = b""
    x = rng.random()
    if x < 0.6:
        tail = b"---\n f | 1 +\n\ndiff --git a/f b/f\n--- a/f\n+++ b/f\n@@ -0,0 +1 @@\n+x\n"
    elif x < 0.75:
        tail = b"diff -ur a/f b/f\n--- a/f\n+++ b/f\n"
    elif x < 0.85:
        tail = b"Index: f\n===\n--- f\n+++ f\n"
    elif x < 0.9:
        tail = b"--- a/f\n+++ b/f\n@@ -1 +1 @@\n-a\n+b\n"
    return msg + tail


NAME_EMAIL = ["A B <a@b>", " A  B  < a@b > ", "<x@y>", " <x@y>", "A <a@b> x", "A <a<b>", "A> <a@b>", "A <a@b>>", "no brackets",
              "A <>", "Ünï Cödé <u@ü.org>", " Nb Sp  <n@b> ", "　Wide <w@w>", "A <a@b> ", "A\u0085 <e>",
              "A <a@b", "A < a b >", "<<>>", "A <a>b> c", "", "<", ">", "a\tb <c\td>"]

TPIECES = ["%(shortdescr)s", "%(longdescr)s", "%(authname)s", "%(k)s", "%(zz)s", "%", "%%", "%(", "%(k", "%(k)", "%(k)x",
           "%(k)xs", "%s", "% (k)s", "text ", "\n", "From: ", "ünï", "(k)s", "%(k)s%(k)s", "%(%(k)s)s", "%()s", "---\n"]


def gen_specialize(rng):
    t = "".join(rng.choice(TPIECES) for _ in range(rng.randint(0, 8)))
    keys = ["shortdescr", "longdescr", "authname", "k", ""]
    repl = [(k, rng.choice([b"V", b"", b"multi\nline", b"\xff raw", "ü".encode(), b"%(k)s"]))
            for k in keys if rng.random() < 0.6]
    return [H(t), ",".join("%s=%s" % (H(k) if k else "-", hb(v)) for k, v in repl) or "-"]


def function_level(ctx, stg, edriver, n):
    rng = ctx.rng
    reqs = []
    dist = {"splitpatch": 0, "parsemsg": 0, "nameemail": 0, "specialize": 0, "malformed": 0}
    for i in range(n):
        x = rng.random()
        mal = rng.random() < 0.25
        dist["malformed"] += 1 if mal else 0
        if x < 0.3:
            reqs.append(["splitpatch", hb(gen_content(rng, mal))])
            dist["splitpatch"] += 1
        elif x < 0.7:
            reqs.append(["parsemsg", hb(gen_message(rng, mal))])
            dist["parsemsg"] += 1
        elif x < 0.82:
            s = rng.choice(NAME_EMAIL)
            if rng.random() < 0.3:
                s = rng.choice([" ", " ", "", "x"]) + s + rng.choice([" ", " ", "", "\n"])
            reqs.append(["nameemail", H(s)])
            dist["nameemail"] += 1
        else:
            reqs.append(["specialize"] + gen_specialize(rng))
            dist["specialize"] += 1
    res = funcorr.run_both(stg, edriver, "/dev/null", reqs)
    bad = [(r, a, b) for r, a, b in res if a != b]
    distinct = {(r[0], a.split(" ")[0] if a.split(" ")[0] in ("ok", "err") else "out") for r, a, b in res}
    return len(res), bad, dist, distinct


# ----------------------------------------------------------------------------- end to end

AUTHORS = [("A U Thor", "author@example.com"), ("Ünï Cödé", "uni@exämple.org"), ("O'Brien, Pat", "pat+tag@example.com"),
           ("名前", "n@example.jp"), ("x", "x@y")]

GOOD_BODIES = ["\u3000全角スペースで始まる段落。\n二行目。\n", "", "One paragraph body.\n", "First paragraph\nsecond line.\n\nSecond paragraph with ünïcödé.\n\n"
               "Signed-off-by: S O <s@o>\nReviewed-by: R V <r@v>\n", "* bullet one\n* bullet two\n\n  indented later is fine\n",
               "key: value pairs later: fine\n\nFrom: not first line <n@f>\n", "a\n\n\n\nb\n"]
BAD_BODIES = [("F13", "before the dashes\n---\nafter the dashes\n"), ("F13", "text\n--- a/old\n+++ b/new\n"),
              ("F13", "see\ndiff --git a/x b/x\nabove\n"), ("F13", "Index: something\n"),
              ("F14", "From: Other Person <other@example.com>\n\nrest\n"), ("F14", "Date: 2001-01-01 00:00:00 +0000\nrest\n"),
              ("F14", "Subject: another\nrest\n"), ("F35", "  indented first body line\nrest\n"),
              ("F35", "\tTabbed first line\n")]


def write_files(r, rng, i):
    """a change set for patch i: returns nothing, stages everything"""
    kinds = rng.sample(["text", "binary", "empty", "latin1", "oddname", "remove", "chmod", "modify"], rng.randint(1, 4))
    for k in kinds:
        if k == "text":
            r.write("t%d.txt" % i, "line %d\nmore\n" % i)
        elif k == "binary":
            r.write("b%d.bin" % i, bytes(rng.randrange(256) for _ in range(200)) + b"\0\0")
        elif k == "empty":
            r.write("e%d" % i, "")
        elif k == "latin1":
            r.write("l%d.txt" % i, "caf\xe9 \xfc\n".encode("latin-1"))
        elif k == "oddname":
            r.write("dir %d/fïle näme %d.txt" % (i, i), "odd\n")
        elif k == "remove" and os.path.exists(os.path.join(r.path, "base.txt")):
            os.remove(os.path.join(r.path, "base.txt"))
        elif k == "chmod":
            p = os.path.join(r.path, "x%d.sh" % i)
            r.write("x%d.sh" % i, "#!/bin/sh\n")
            os.chmod(p, 0o755)
        elif k == "modify":
            r.write("shared.txt", "".join("shared line %d v%d\n" % (j, i if j == i % 5 else 0) for j in range(5)))
    r.git(["add", "-A"])


def patch_facts(r, name, branch="main"):
    oid = r.rev("refs/patches/%s/%s" % (branch, name))
    p = subprocess.run(["git", "log", "-1", "--format=%an%x00%ae%x00%T%x00%B", oid], cwd=r.path, capture_output=True,
                       env=r.env())
    an, ae, tree, msg = p.stdout.split(b"\0", 3)
    return {"an": an, "ae": ae, "tree": tree.decode(), "msg": msg, "oid": oid}


def norm_msg(b):
    return b.rstrip()


def make_series(r, stg, rng, npatch, with_bad, subjects=None):
    r.stg(stg, ["init"])
    meta = []
    for i in range(npatch):
        an, ae = rng.choice(AUTHORS)
        subj = rng.choice(subjects or GOOD_SUBJECTS)
        cls = None
        if with_bad and rng.random() < 0.35:
            cls, body = rng.choice(BAD_BODIES)
        else:
            body = rng.choice(GOOD_BODIES)
        if with_bad and cls is None and rng.random() < 0.15:
            subj, cls = rng.choice(["subject: with colon", "Date: is the topic", "from: here <to@there>"]), "F14"
        msg = subj + ("\n\n" + body if body else "")
        # names as users give them: mixed case, digits first, dots, underscores, non-ASCII
        name = rng.choice(["p%d", "Fix-README-%d", "update-Makefile_v%d", "%d-leading-digit", "dotted.name.%d",
                           "Ünï-%d", "UPPER%d", "a%d"]) % i
        write_files(r, rng, i)
        p = r.stg(stg, ["new", "--author", "%s <%s>" % (an, ae), "-m", msg, name])
        assert p.returncode == 0, p.stderr
        p = r.stg(stg, ["refresh"])
        assert p.returncode == 0, p.stderr
        meta.append({"name": name, "class": cls})
    return meta


def model_export_check(r, stg, ed, names, outdir, failures):
    """every exported file equals the model's export_file on the commit's data"""
    n = 0
    for nm in names:
        f = patch_facts(r, nm)
        parent_tree = r.rev(f["oid"] + "^^{tree}")
        diff = subprocess.run(["git", "diff-tree", "-p", "--color=never", "--binary", parent_tree, f["tree"]],
                              cwd=r.path, capture_output=True, env=r.env()).stdout
        stat = b""
        if parent_tree != f["tree"]:
            stat = subprocess.run(["git", "apply", "--stat", "--summary"], cwd=r.path, input=diff, capture_output=True,
                                  env=r.env()).stdout
        real = open(os.path.join(outdir, nm), "rb").read()
        got = ed.ask(["exportdefault", hb(f["msg"]), hb(f["an"]), hb(f["ae"]), hb(stat), hb(diff)])
        n += 1
        if got != hb(real):
            failures.append({"obligation": "correspondence:C18:export-file", "patch": nm,
                             "implementation": real[:400].decode("utf-8", "replace"),
                             "model": bytes.fromhex(got if got != "-" else "")[:400].decode("utf-8", "replace")})
    return n


class EDriver:
    def __init__(self, exe):
        self.p = subprocess.Popen([exe], stdin=subprocess.PIPE, stdout=subprocess.PIPE, text=True, bufsize=1)
        self.n = 0

    def ask(self, fields):
        self.n += 1
        self.p.stdin.write("%d\t%s\n" % (self.n, "\t".join(fields)))
        self.p.stdin.flush()
        line = self.p.stdout.readline().rstrip("\n")
        return line.partition("\t")[2]

    def close(self):
        try:
            self.p.stdin.close()
            self.p.wait(timeout=5)
        except Exception:
            self.p.kill()


def build_edriver():
    with common.Lock("ocaml"):
        src = [os.path.join(common.OCAML, f) for f in ("emodel.mli", "emodel.ml", "edriver.ml")]
        exe = os.path.join(common.OCAML, "edriver")
        if os.path.exists(exe) and all(os.path.getmtime(s) <= os.path.getmtime(exe) for s in src):
            return exe
        p = common.run(["ocamlfind", "ocamlopt", "-O2", "-w", "-a", "emodel.mli", "emodel.ml", "edriver.ml", "-o",
                        "edriver"], cwd=common.OCAML, timeout=600)
        if p.returncode != 0:
            raise common.BuildError("ocaml edriver build failed:\n" + p.stderr[-3000:])
        return exe


FORMS = ["series", "files", "gz", "tgz", "bz2", "tar", "tbz2"]


def roundtrip(stg, ed, rng, npatch, with_bad, form, tag="c18"):
    """returns (n checked, failures, known classes seen)"""
    failures = []
    seen_known = set()
    n = 0
    with repo.Scratch(tag) as r:
        r.init_repo()
        base = r.rev("HEAD")
        meta = make_series(r, stg, rng, npatch, with_bad)
        names = [m["name"] for m in meta]
        before = {nm: patch_facts(r, nm) for nm in names}
        outdir = os.path.join(r.home, "out")
        p = r.stg(stg, ["export", "-d", outdir])
        if p.returncode != 0:
            return 0, [{"obligation": "direct-oracle:C18", "why": "export failed", "stderr": p.stderr[-300:]}], seen_known
        n += model_export_check(r, stg, ed, names, outdir, failures)
        if rng.random() < 0.5:
            # exporting again into the same directory - where every file of the first export has since
            # grown a stale tail (an extra diff section, a longer series file) - gives the same bytes as
            # exporting into a fresh one
            first = {f: open(os.path.join(outdir, f), "rb").read() for f in os.listdir(outdir)}
            for k, f in enumerate(sorted(first)):
                with open(os.path.join(outdir, f), "ab") as fh:
                    if f == "series":
                        fh.write(b"# stale line\nstale-patch-that-does-not-exist\n")
                    else:
                        fh.write(("diff --git a/stale-%d.txt b/stale-%d.txt\nnew file mode 100644\n--- /dev/null\n"
                                  "+++ b/stale-%d.txt\n@@ -0,0 +1 @@\n+stale\n" % (k, k, k)).encode())
            p = r.stg(stg, ["export", "-d", outdir])
            n += 1
            again = {f: open(os.path.join(outdir, f), "rb").read() for f in os.listdir(outdir)}
            if p.returncode != 0:
                failures.append({"obligation": "direct-oracle:C18", "why": "exporting into the directory of an earlier "
                                 "export failed", "stderr": p.stderr[-300:]})
            elif again != first:
                bad = sorted(f for f in set(first) | set(again) if first.get(f) != again.get(f))
                failures.append({"obligation": "direct-oracle:C18", "why": "exporting again into the same directory does "
                                 "not give the files of a fresh export (stale content survives): %r" % bad[:4]})
        # import on the same base, on a fresh branch
        r.git(["checkout", "-q", "-b", "imp", base])
        r.stg(stg, ["init"])
        if form == "series":
            p = r.stg(stg, ["import", "--series", os.path.join(outdir, "series")])
            rcs = [p]
        elif form in ("tgz", "tar", "tbz2"):
            ext, flag = {"tgz": ("tar.gz", "czf"), "tar": ("tar", "cf"), "tbz2": ("tar.bz2", "cjf")}[form]
            tgz = os.path.join(r.home, "series." + ext)
            subprocess.run(["tar", flag, tgz, "-C", r.home, "out"], check=True)
            p = r.stg(stg, ["import", "--series", tgz])
            rcs = [p]
        else:
            rcs = []
            for nm in names:
                path = os.path.join(outdir, nm)
                if form in ("gz", "bz2"):
                    subprocess.run(["gzip" if form == "gz" else "bzip2", "-k", "-f", path], check=True)
                    # the patch name is derived from the file name: keep it
                    rcs.append(r.stg(stg, ["import", "--name", nm, path + "." + form]))
                else:
                    rcs.append(r.stg(stg, ["import", path]))
        for p in rcs:
            if p.returncode != 0 or "panicked" in p.stderr:
                cls = next((m["class"] for m in meta if m["class"]), None)
                if cls and with_bad:
                    seen_known.add(cls)
                else:
                    failures.append({"obligation": "direct-oracle:C18", "form": form, "why": "import failed",
                                     "exit": p.returncode, "stderr": p.stderr[-300:]})
                return n, failures, seen_known
        got_names = r.stg(stg, ["series", "--noprefix", "-a"]).stdout.split()
        if got_names != names:
            failures.append({"obligation": "direct-oracle:C18", "form": form, "why": "names / order differ",
                             "expected": names, "got": got_names})
            return n, failures, seen_known
        for m in meta:
            nm = m["name"]
            a, b = before[nm], patch_facts(r, nm, "imp")
            n += 1
            probs = []
            if a["tree"] != b["tree"]:
                probs.append("tree differs")
            if a["an"] != b["an"] or a["ae"] != b["ae"]:
                probs.append("author differs: %r <%r> -> %r <%r>" % (a["an"], a["ae"], b["an"], b["ae"]))
            if norm_msg(a["msg"]) != norm_msg(b["msg"]):
                probs.append("message differs: %r -> %r" % (a["msg"][:120], b["msg"][:120]))
            # the model's prediction for this file (correspondence at the end-to-end level)
            real = open(os.path.join(outdir, nm), "rb").read()
            pred = ed.ask(["importfile", hb(real)])
            if pred.startswith("ok "):
                _, pn, pe, pm, _pd = pred.split(" ")
                dec = lambda h: b"" if h in ("-", "e") else (None if h == "_" else bytes.fromhex(h))
                mn, me, mm = dec(pn), dec(pe), dec(pm)
                if mn is not None and (mn != b["an"] or me != b["ae"]):
                    failures.append({"obligation": "correspondence:C18:import", "patch": nm, "form": form,
                                     "model_author": [str(mn), str(me)], "implementation_author": [str(b["an"]), str(b["ae"])]})
                if norm_msg(mm or b"") != norm_msg(b["msg"]):
                    failures.append({"obligation": "correspondence:C18:import", "patch": nm, "form": form,
                                     "model_message": (mm or b"")[:200].decode("utf-8", "replace"),
                                     "implementation_message": b["msg"][:200].decode("utf-8", "replace")})
            if probs:
                # a known class excuses only what it describes: message / author differences
                if m["class"] and not any(x.startswith("tree") for x in probs):
                    seen_known.add(m["class"])
                else:
                    failures.append({"obligation": "direct-oracle:C18", "form": form, "patch": nm, "problems": probs,
                                     "message": a["msg"][:300].decode("utf-8", "replace")})
    return n, failures, seen_known


def reject_check(stg, rng):
    """a patch whose diff does not apply creates no patch and leaves the work tree alone"""
    failures = []
    n = 0
    with repo.Scratch("c18r") as r:
        r.init_repo()
        r.write("f.txt", "one\ntwo\nthree\n")
        r.git(["add", "-A"])
        r.git(["commit", "-q", "-m", "f"])
        r.stg(stg, ["init"])
        bad = ("does not apply\n\nFrom: X <x@y>\n\n---\n\ndiff --git a/f.txt b/f.txt\n--- a/f.txt\n+++ b/f.txt\n"
               "@@ -1,3 +1,3 @@\n one\n-TWO-NOT-THERE\n+2\n three\n")
        pth = os.path.join(r.home, "bad.patch")
        open(pth, "w").write(bad)
        for extra in ([], ["--3way"]):
            before_wt = r.read("f.txt")
            before_series = r.stg(stg, ["series", "-a"]).stdout
            before_refs = r.git(["for-each-ref"]).stdout
            p = r.stg(stg, ["import"] + extra + [pth])
            n += 1
            probs = []
            if p.returncode == 0:
                probs.append("import of a non-applying diff succeeded")
            if r.stg(stg, ["series", "-a"]).stdout != before_series:
                probs.append("a patch was created")
            if r.read("f.txt") != before_wt or r.git(["status", "--porcelain"]).stdout.strip():
                probs.append("work tree / index changed: %r" % r.git(["status", "--porcelain"]).stdout)
            if r.git(["for-each-ref"]).stdout != before_refs:
                probs.append("refs changed")
            if probs:
                failures.append({"obligation": "direct-oracle:C18:reject", "argv": ["import"] + extra + ["bad.patch"],
                                 "exit": p.returncode, "problems": probs, "stderr": p.stderr[-300:]})
    return n, failures


def mbox_check(stg, rng):
    """git format-patch --stdout | stg import -M reproduces tree, author and message"""
    failures = []
    n = 0
    with repo.Scratch("c18m") as r:
        r.init_repo()
        base = r.rev("HEAD")
        # git mailinfo strips a leading "[PATCH ...]" from subjects by design: not used here
        meta = make_series(r, stg, rng, 3, False, [x for x in GOOD_SUBJECTS if not x.startswith("[")])
        names = [m["name"] for m in meta]
        before = [patch_facts(r, nm) for nm in names]
        mbox = subprocess.run(["git", "format-patch", "--stdout", "--binary", base + "..HEAD"], cwd=r.path,
                              capture_output=True, env=r.env()).stdout
        pth = os.path.join(r.home, "series.mbox")
        open(pth, "wb").write(mbox)
        r.git(["checkout", "-q", "-b", "imp", base])
        r.stg(stg, ["init"])
        p = r.stg(stg, ["import", "-M", pth])
        if p.returncode != 0:
            return 1, [{"obligation": "direct-oracle:C18:mbox", "why": "import -M failed", "stderr": p.stderr[-300:]}]
        got = r.stg(stg, ["series", "--noprefix", "-a"]).stdout.split()
        if len(got) != len(names):
            return 1, [{"obligation": "direct-oracle:C18:mbox", "why": "patch count differs", "got": got}]
        for a, nm in zip(before, got):
            b = patch_facts(r, nm, "imp")
            n += 1
            probs = []
            if a["tree"] != b["tree"]:
                probs.append("tree differs")
            if a["an"] != b["an"] or a["ae"] != b["ae"]:
                probs.append("author differs")
            if norm_msg(a["msg"]) != norm_msg(b["msg"]):
                probs.append("message differs: %r -> %r" % (a["msg"][:100], b["msg"][:100]))
            if probs:
                failures.append({"obligation": "direct-oracle:C18:mbox", "patch": nm, "problems": probs})
    return n, failures


DATES = ["1700000000 +0545", "86400 +1400", "1234567890 -0930", "1112911993 +0000", "2147483648 -1200",
         "951782400 +0100", "1709164800 +0000", "4102444800 +0900"]

DATE_TEMPLATE = ("%(shortdescr)s\n\nFrom: %(authname)s <%(authemail)s>\nDate: %(authdate)s\n\n%(longdescr)s\n---\n"
                 "%(diffstat)s\n")


def date_template_roundtrip(stg, rng):
    """with a template that carries the author date, the date (and its time zone) comes back too"""
    failures = []
    n = 0
    with repo.Scratch("c18d") as r:
        r.init_repo()
        base = r.rev("HEAD")
        r.stg(stg, ["init"])
        want = {}
        for i, d in enumerate(DATES):
            an, ae = AUTHORS[i % len(AUTHORS)]
            r.write("d%d.txt" % i, "%d\n" % i)
            r.git(["add", "-A"])
            p = r.stg(stg, ["new", "--author", "%s <%s>" % (an, ae), "--authdate", d, "-m", "dated %d\n\nbody %d" % (i, i),
                            "d%d" % i])
            assert p.returncode == 0, p.stderr
            r.stg(stg, ["refresh"])
            want["d%d" % i] = r.git(["log", "-1", "--format=%an%x00%ae%x00%ad", "--date=raw", "refs/patches/main/d%d" % i]).stdout
        tmpl = os.path.join(r.home, "date.tmpl")
        open(tmpl, "w").write(DATE_TEMPLATE)
        out = os.path.join(r.home, "outd")
        p = r.stg(stg, ["export", "-d", out, "-t", tmpl])
        if p.returncode != 0:
            return 1, [{"obligation": "direct-oracle:C18:date", "why": "export failed", "stderr": p.stderr[-300:]}]
        r.git(["checkout", "-q", "-b", "impd", base])
        r.stg(stg, ["init"])
        p = r.stg(stg, ["import", "--series", os.path.join(out, "series")])
        if p.returncode != 0:
            return 1, [{"obligation": "direct-oracle:C18:date", "why": "import failed", "stderr": p.stderr[-300:]}]
        for nm, w in want.items():
            got = r.git(["log", "-1", "--format=%an%x00%ae%x00%ad", "--date=raw", "refs/patches/impd/" + nm], check=False).stdout
            n += 1
            if got != w:
                failures.append({"obligation": "direct-oracle:C18:date", "patch": nm,
                                 "problems": ["author / date differ: %r -> %r" % (w, got)]})
    return n, failures


def other_repository_roundtrip(stg):
    """the exported series is self-contained: imported into ANOTHER repository that has nothing but
    the base commit (no blob of any patch), it reproduces every tree - text, added / modified /
    removed binary files, empty files, mode changes"""
    failures = []
    n = 0
    with repo.Scratch("c18a") as a, repo.Scratch("c18b") as b:
        a.init_repo()
        a.write("keep.bin", bytes(range(256)) + b"\0old\0")
        a.write("gone.bin", b"\0\1\2 to be removed \0")
        a.git(["add", "-A"])
        a.git(["commit", "-q", "-m", "binary files in the base"])
        a.git(["branch", "basebr"])
        a.stg(stg, ["init"])
        steps = [("p-text", lambda: a.write("t.txt", "text\n")),
                 ("p-addbin", lambda: a.write("new.bin", b"\0\xff\xfe binary \0" * 20)),
                 ("p-modbin", lambda: a.write("keep.bin", bytes(reversed(range(256))) + b"\0new\0")),
                 ("p-rmbin", lambda: os.remove(os.path.join(a.path, "gone.bin"))),
                 ("p-empty-and-mode", lambda: (a.write("empty", ""), a.write("run.sh", "#!/bin/sh\n"),
                                               os.chmod(os.path.join(a.path, "run.sh"), 0o755)))]
        for nm, fn in steps:
            a.stg(stg, ["new", "-m", "subject of " + nm, nm])
            fn()
            a.git(["add", "-A"])
            a.stg(stg, ["refresh"])
        want = {nm: patch_facts(a, nm) for nm, _ in steps}
        out = os.path.join(a.home, "out")
        p = a.stg(stg, ["export", "-d", out])
        if p.returncode != 0:
            return 1, [{"obligation": "direct-oracle:C18", "why": "export failed", "stderr": p.stderr[-300:]}]
        b.git(["init", "-q", "-b", "main"])
        b.git(["config", "user.name", "C O Mitter"])
        b.git(["config", "user.email", "committer@example.com"])
        b.git(["fetch", "-q", a.path, "basebr"])
        b.git(["reset", "-q", "--hard", "FETCH_HEAD"])
        b.stg(stg, ["init"])
        p = b.stg(stg, ["import", "--series", os.path.join(out, "series")])
        n += 1
        if p.returncode != 0:
            failures.append({"obligation": "direct-oracle:C18", "form": "series, other repository",
                             "why": "import into a repository that has only the base commit failed (the exported "
                                    "series is not self-contained)", "exit": p.returncode, "stderr": p.stderr[-300:]})
            return n, failures
        for nm, _ in steps:
            got = patch_facts(b, nm)
            n += 1
            if got["tree"] != want[nm]["tree"]:
                failures.append({"obligation": "direct-oracle:C18", "form": "series, other repository", "patch": nm,
                                 "problems": ["tree differs"]})
    return n, failures


def run(ctx):
    stg = common.build_stg()
    broken = gate.coq_gate(ctx, need_extract=False)
    ok, text = common.coq_make(["ExtractExport.vo"])
    if not ok:
        broken.append("coq build failed: ExtractExport.vo: " + text[-300:])
    exe = build_edriver()
    nfun = 1500 if ctx.quick() else 40000
    total, bad, dist, distinct = function_level(ctx, stg, exe, nfun)
    ctx.obligations += 1
    if not bad:
        ctx.discharged += 1
    for r, a, b in bad[:3]:
        common.violation(ctx, {"obligation": "correspondence:C18:function-level", "request": r, "implementation": a,
                               "model": b}, found_input=True, hint="corr-")
    ed = EDriver(exe)
    failures = []
    seen_known = set()
    nrt = 7 if ctx.quick() else 84
    e2e = 0
    forms = {}
    for i in range(nrt):
        seed = ctx.rng.randrange(1 << 30)
        form = FORMS[i % len(FORMS)]
        with_bad = (i % 3 == 2)
        n, f, k = roundtrip(stg, ed, random.Random(seed), 3 if ctx.quick() else 5, with_bad, form)
        e2e += n
        forms[form] = forms.get(form, 0) + 1
        for x in f:
            x["seed"], x["form"], x["with_bad"] = seed, form, with_bad
        failures += f
        seen_known |= k
    # the three refuted shapes are always replayed on the implementation
    n, f, k = roundtrip(stg, ed, random.Random(7), 6, True, "series", tag="c18k")
    e2e += n
    failures += f
    seen_known |= k
    ed.close()
    n1, f1 = reject_check(stg, ctx.rng)
    n2, f2 = mbox_check(stg, ctx.rng)
    n3, f3 = date_template_roundtrip(stg, ctx.rng)
    n4, f4 = other_repository_roundtrip(stg)
    e2e += n1 + n2 + n3 + n4
    failures += f1 + f2 + f3 + f4
    ctx.obligations += 1
    if not failures:
        ctx.discharged += 1
    for f in failures[:4]:
        common.violation(ctx, f, found_input=True, hint="oracle-" if f["obligation"].startswith("direct") else "corr-")
    kf = json.load(open(os.path.join(common.VERIF, "known_findings.json")))
    for e in kf:
        if "C18" in e.get("properties", []) and e.get("status") == "known" and e["id"] in seen_known:
            ctx.known.append("%s: %s" % (e["id"], e["what"]))
    unknown = seen_known - {e["id"] for e in kf if e.get("status") == "known"}
    if unknown:
        common.violation(ctx, {"obligation": "direct-oracle:C18", "why": "failure classes not listed as known: %r" % sorted(unknown)},
                         found_input=True, hint="oracle-")
    if broken and not ctx.violations:
        common.violation(ctx, {"obligation": "Properties/C18.v", "broken": broken,
                               "searched": "%d function-level and %d end-to-end comparisons agreed" % (total, e2e)},
                         found_input=False, hint="proof-")
    ctx.coverage.update({
        "evaluations": total + e2e, "distinct_nontrivial": len(distinct) + len(forms),
        "rule": "function level: generated exported-file-like texts (subjects, header-like, separator-like, body "
                "lines, CRLF, missing final newline; 25%% with invalid UTF-8) through split_patch / parse_message, "
                "name-email strings incl. Unicode white space, template fragments incl. incomplete specifiers; "
                "end to end: generated series exported and re-imported through %r; distinct = distinct "
                "(function, outcome kind) + import forms" % (FORMS,),
        "input_distribution": dist, "import_forms": forms, "end_to_end_comparisons": e2e,
        "traces_validated_against_impl": total + e2e,
        "samples": [{"fn": r[0], "result": a[:60]} for r, a, b in []][:0],
    })
    ctx.trusted_base += ["extraction of Model/Export.v: ExtrOcamlBasic only -> ocaml/emodel.ml, driver ocaml/edriver.ml",
                         "hook 3 (`stg verif-eval` splitpatch / parsemsg / nameemail / specialize)"]
    ctx.assumptions += [
        "git diff-tree -p --binary and git apply --index reproduce trees exactly (git's contract; exercised by the "
        "direct oracle on text, binary, empty, non-UTF-8 contents, odd names, removals and mode changes)",
        "gzip / bzip2 / tar decoding and git mailsplit / mailinfo (mbox form) are outside the model",
        "the EditBuilder's message clean-up after import is compared up to trailing white space",
        "bodies that are not valid UTF-8 are decoded lossily by the implementation (to_str_lossy); the model keeps "
        "the bytes: compared only through the function-level hooks, which return the raw body",
    ]


def replay(ctx, path):
    doc = json.load(open(path))
    stg = common.build_stg()
    common.coq_make(["ExtractExport.vo"])
    exe = build_edriver()
    if doc.get("obligation", "").startswith("correspondence:C18:function-level"):
        res = funcorr.run_both(stg, exe, "/dev/null", [doc["request"]])
        print(res)
        return 1 if res[0][1] != res[0][2] else 0
    if "seed" in doc:
        ed = EDriver(exe)
        n, f, k = roundtrip(stg, ed, random.Random(doc["seed"]), 3, doc.get("with_bad", False), doc.get("form", "series"))
        ed.close()
        print(json.dumps(f, indent=1)[:3000], k)
        return 1 if f else 0
    return 0
