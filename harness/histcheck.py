"""Shared driver for the history-level checks: proof gate + corpus scenarios + generated
scenarios (parallel), direct oracles on the real repository, known-findings handling."""

import json
import multiprocessing
import os
import random
import re
import subprocess

from . import common, funcorr, gate, gen_hist, hist

KNOWN_PATH = os.path.join(common.VERIF, "known_findings.json")


def load_known(prop):
    if not os.path.exists(KNOWN_PATH):
        return []
    return [k for k in json.load(open(KNOWN_PATH)) if k.get("status") == "known" and prop in k.get("properties", [])]


def match_known(known, failure):
    """failure: dict(cmd=..., why=..., stderr=..., kind=...)."""
    for k in known:
        m = k["match"]
        if "cmd" in m and failure.get("cmd", {}).get("c") not in (m["cmd"] if isinstance(m["cmd"], list) else [m["cmd"]]):
            continue
        if "why_re" in m and not re.search(m["why_re"], failure.get("why", "") or ""):
            continue
        if "stderr_re" in m and not re.search(m["stderr_re"], failure.get("stderr", "") or ""):
            continue
        return k
    return None


# ----------------------------------------------------------------------------- direct oracles
# Each oracle: f(real, snap, graph, i, cmd, exit, stderr) -> None | failure text.
# They look only at the real repository (never at the model).


def stack_json(real, snap):
    if not snap["stack"]:
        return None
    return real.commit_info(snap["stack"])["state"]


def oracle_c20(real, snap, graph, i, c, ex, stderr):
    if ex not in (0, 1, 2, 3):
        first = stderr.strip().split("\n")[0][:160] if stderr.strip() else ""
        return "exit status %r: %s" % (ex, first)
    if ex != 0 and not stderr.strip() and c["c"] not in ("gedit", "gcommit", "gamend", "gmerge", "greset", "gconfig"):
        return "exit status %r without a diagnostic on stderr" % (ex,)
    return None


def oracle_c01(real, snap, graph, i, c, ex, stderr):
    st = stack_json(real, snap)
    if st is None:
        return None
    A, U, H = st["applied"], st["unapplied"], st["hidden"]
    allp = A + U + H
    if len(set(allp)) != len(allp):
        return "a patch is listed more than once: %r" % (allp,)
    if set(allp) != set(st["patches"].keys()):
        return "lists and patch map disagree: %r vs %r" % (sorted(allp), sorted(st["patches"]))
    low = {}
    for n in allp:
        if n.lower() in low:
            return "patch names differ only by case: %r / %r" % (low[n.lower()], n)
        low[n.lower()] = n
    for n in allp:
        oid = st["patches"][n]["oid"]
        ci = real.commit_info(oid)
        if ci.get("missing"):
            return "patch %r points at a missing object" % n
    if stg_opened(c, ex) and snap["prefs"] != {n: st["patches"][n]["oid"] for n in allp}:
        return "patch refs do not mirror the stack: refs=%r" % (sorted(snap["prefs"].items())[:6],)
    if moved_by_stg(c, ex) and st["head"] != snap["branch"]:
        return "recorded head %s is not the branch head %s" % (st["head"][:8], (snap["branch"] or "")[:8])
    return None


class Tracker:
    """remembers the state ref before each command, so that oracles can tell whether the
    command published a new stack state"""

    def __init__(self):
        self.prev_stack = None
        self.published = False

    def __call__(self, real, snap, graph, i, c, ex, stderr):
        self.published = snap["stack"] is not None and snap["stack"] != self.prev_stack
        self.prev_stack = snap["stack"]
        TRACK["published"] = self.published
        return None


TRACK = {"published": True}


def stg_opened(c, ex):
    return c["c"] not in ("gedit", "gcommit", "gamend", "gmerge", "greset", "gconfig") and ex in (0, 2, 3)


def moved_by_stg(c, ex):
    """commands after whose success the branch was last moved by stg"""
    return ex in (0, 3) and TRACK["published"] and \
        c["c"] in ("new", "refresh", "push", "pop", "goto", "float", "sink", "delete", "hide", "unhide", "commit",
                   "clean", "spill", "repair") and \
        not (ex == 3 and c["c"] in ("hide", "unhide"))


def refname_oracle(real, names, cache):
    bad = []
    for n in names:
        if n in cache:
            continue
        p = subprocess.run(["git", "check-ref-format", "refs/patches/main/" + n], cwd=real.r.path,
                           capture_output=True)
        cache[n] = p.returncode == 0
    return [n for n in names if not cache[n]]


_ref_cache = {}


def oracle_c01_refnames(real, snap, graph, i, c, ex, stderr):
    st = stack_json(real, snap)
    if st is None:
        return None
    bad = refname_oracle(real, st["applied"] + st["unapplied"] + st["hidden"], _ref_cache)
    return ("illegal ref component as patch name: %r" % bad) if bad else None


def oracle_c02(real, snap, graph, i, c, ex, stderr):
    st = stack_json(real, snap)
    if st is None or not moved_by_stg(c, ex):
        return None
    A = st["applied"]
    prev = None
    for k, n in enumerate(A):
        ci = real.commit_info(st["patches"][n]["oid"])
        if len(ci["parents"]) != 1:
            return "applied patch %r has %d parents" % (n, len(ci["parents"]))
        if k > 0 and ci["parents"][0] != prev:
            return "applied patch %r is not a child of the patch below it" % n
        prev = st["patches"][n]["oid"]
    if A and prev != snap["branch"]:
        return "top applied patch is not the branch head"
    if c["c"] != "repair":
        if A and st["head"] != prev:
            return "recorded head is not the top applied patch"
    return None


def oracle_c06(real, snap, graph, i, c, ex, stderr):
    """every patch commit of every state on the prev chain is reachable from refs/stacks/main"""
    if not snap["stack"] or ex not in (0, 3):
        return None
    p = real.r.git(["rev-list", snap["stack"]], check=False)
    reach = set(p.stdout.split())
    so, k = snap["stack"], 0
    while so and k < 40:
        ci = real.commit_info(so)
        st = ci["state"]
        if st is None:
            return "prev chain leaves the state commits at %s" % so[:8]
        for n, v in st["patches"].items():
            if v["oid"] not in reach:
                return "patch %r of log entry %d (%s) is not reachable from refs/stacks/main" % (n, k, so[:8])
        if st["head"] not in reach:
            return "head of log entry %d is not reachable from refs/stacks/main" % k
        so = st.get("prev")
        k += 1
    return None


class LogOracle:
    """C06 append-only / C05 local undo rule, with its own memory of earlier snapshots."""

    def __init__(self):
        self.prev_log = None
        self.history = []     # (stack lists, patches, head, branch) after every command

    def observe(self, real, snap):
        st = stack_json(real, snap)
        log = []
        so, k = snap["stack"], 0
        while so and k < 60:
            log.append(so)
            s = real.commit_info(so)["state"]
            if s is None:
                break
            so = s.get("prev")
            k += 1
        return st, log

    def __call__(self, real, snap, graph, i, c, ex, stderr):
        st, log = self.observe(real, snap)
        fail = None
        if self.prev_log is not None and c["c"] != "logclear" and ex in (0, 2, 3):
            old = self.prev_log
            if old and log[-len(old):] != old and len(old) < 60 and len(log) < 60:
                fail = "stack log is not append-only: old entries %r are not the tail of %r" % (
                    [x[:7] for x in old[:4]], [x[:7] for x in log[:6]])
        self.prev_log = log
        cur = None
        if st is not None:
            cur = (st["applied"], st["unapplied"], st["hidden"], {k: v["oid"] for k, v in st["patches"].items()},
                   st["head"], snap["branch"], snap["wt"])
        # local undo rule: a successful plain `undo` right after a successful state-changing
        # stg command restores the snapshot before that command
        if (fail is None and c["c"] == "undo" and ex == 0 and c.get("n", 1) == 1 and len(self.history) >= 2
                and self.history[-1][1] and self.history[-1][2] == 0 and self.history[-1][3] == 1):
            before = self.history[-2][0]
            if before is not None and cur is not None and cur[:6] != before[:6]:
                fail = "undo did not restore the state that preceded the last operation"
            elif before is not None and cur is not None and before[6] is not None and "hard" not in c.get("flags", []) \
                    and cur[6] != before[6]:
                fail = "undo did not restore the work tree"
        # independent reading of the log (specification of C05: effective timeline / redo stack)
        if fail is None and c["c"] in ("undo", "redo") and ex == 0 and st is not None and len(log) >= 2:
            fail = self.check_against_log(real, snap, st, log, c)
        # `stg reset <entry> [<patches>]`: the entry is read from the repository as it was before
        # the command; a full reset restores it exactly, a partial one gives every named patch the
        # recorded commit and - when it did not exist any more - the recorded hidden-ness, and
        # removes named patches the entry does not have
        if (fail is None and c["c"] == "reset" and ex == 0 and c.get("entry") is not None and st is not None
                and old and len(self.history) >= 1 and self.history[-1][0] is not None):
            tgt = real.r.git(["rev-parse", "--verify", "-q", "%s~%d" % (old[0], c["entry"])], check=False).stdout.strip()
            ts = real.commit_info(tgt)["state"] if tgt else None
            before = self.history[-1][0]
            if ts is not None:
                tsp = {k: v["oid"] for k, v in ts["patches"].items()}
                if not c.get("ranges"):
                    if (st["applied"], st["unapplied"], st["hidden"], cur[3]) != (ts["applied"], ts["unapplied"], ts["hidden"], tsp):
                        fail = "reset did not restore the state of the entry it was given (%s)" % tgt[:8]
                elif all(n in tsp for n in c["ranges"]):
                    # (arguments are resolved in the ENTRY's stack, where an existing name wins; anything
                    # else is a locator or a range and is left to the model)
                    for n in c["ranges"]:
                        if n not in st["applied"] and cur[3].get(n) != tsp[n]:
                            # (a patch that was applied is pushed back, possibly onto another parent)
                            fail = "partial reset: patch %r does not have the commit recorded in the entry" % n
                        elif n not in before[3] and (n in ts["hidden"]) != (n in st["hidden"]):
                            fail = ("partial reset: patch %r was re-created %s although the entry records it as %s"
                                    % (n, "hidden" if n in st["hidden"] else "visible",
                                       "hidden" if n in ts["hidden"] else "visible"))
                        if fail:
                            break
        changing = c["c"] in ("new", "push", "pop", "goto", "float", "sink", "delete", "hide", "unhide", "rename",
                              "commit", "uncommit", "clean", "spill")
        nlog = len(log) - len(old) if (self.prev_log is not None and False) else None
        entries = (len(log) - len(self._last_log)) if hasattr(self, "_last_log") else 0
        self._last_log = log
        self.history.append((cur, changing, ex, entries))
        return fail


def commit_selection(c, pst):
    """the patches `stg commit` is asked to commit, read off its arguments independently of stg's
    range resolver; None when an argument is not a plain name or a name..name range"""
    A, U = pst["applied"], pst["unapplied"]
    flags = c.get("flags", [])
    if "argv" in c:
        return None               # a scripted command line (harness/extras.py), not an abstract command
    if c.get("ranges"):
        order = A + U
        out = set()
        for arg in c["ranges"]:
            if ".." in arg:
                lo, _, hi = arg.partition("..")
                if (lo and lo not in order) or (hi and hi not in order):
                    return None
                i = order.index(lo) if lo else 0
                if hi:
                    j = order.index(hi)
                elif (lo and lo in A) or not lo:
                    j = len(A) - 1            # open end: the topmost applied patch
                else:
                    j = len(order) - 1        # starts among the unapplied ones: to the last of them
                if not A and not lo:
                    return None
                if i > j:
                    return None
                out |= set(order[i:j + 1])
            elif arg in order:
                out.add(arg)
            else:
                return None
        return out
    if c.get("n") is not None:
        return set(A[:c["n"]]) if 0 < c["n"] <= len(A) else None
    if "all" in flags:
        return set(A)
    return set(A[:1]) if A else None


class PrevOracle:
    """C12 / C13 clauses that compare with the snapshot before the command"""

    def __init__(self):
        self.prev = None

    def __call__(self, real, snap, graph, i, c, ex, stderr):
        st = stack_json(real, snap)
        cur = {"branch": snap["branch"], "wt": snap["wt"], "unmerged": snap["unmerged"], "st": st,
               "status": real.r.git(["status", "--porcelain"]).stdout}
        prev, self.prev = self.prev, cur
        if prev is None or prev["st"] is None or st is None:
            return None
        pst = prev["st"]
        if c["c"] == "repair":
            if cur["branch"] != prev["branch"]:
                return "stg repair moved the branch head"
            if cur["status"] != prev["status"] and ex in (0, 2):
                # the status relative to HEAD may only change if HEAD changed - it must not
                return "stg repair changed the index / work tree status"
            if ex == 0:
                before = set(pst["applied"] + pst["unapplied"] + pst["hidden"])
                after = set(st["applied"] + st["unapplied"] + st["hidden"])
                if not before <= after:
                    return "stg repair dropped patches: %r" % sorted(before - after)
                if set(pst["hidden"]) - set(st["hidden"]) - set(st["applied"]):
                    return "stg repair un-hid a patch that is not applied"
                # "repair on a consistent stack changes nothing but the log": head = top (or the
                # base with nothing applied) and every applied patch sits on the one below
                def first_parent(o):
                    f = real.r.git(["rev-list", "--parents", "-n", "1", o]).stdout.split()
                    return f[1] if len(f) > 1 else None
                aoids = [pst["patches"][n]["oid"] for n in pst["applied"]]
                consistent = (pst.get("head") == prev["branch"]
                              and (not aoids or aoids[-1] == prev["branch"])
                              and all(first_parent(b) == a for a, b in zip(aoids, aoids[1:])))
                if consistent:
                    # ... and no unapplied or hidden patch's commit lies on the first-parent path that
                    # repair walks (down to the first merge or the root): after `stg rebase <patch
                    # commit>` or `git reset` onto one, repair rightly makes such patches applied
                    walked = set()
                    for o in real.r.git(["rev-list", "--first-parent", "--parents", prev["branch"]]).stdout.split("\n"):
                        f = o.split()
                        if len(f) != 2:
                            break
                        walked.add(f[0])
                    consistent = not any(pst["patches"][n]["oid"] in walked and pst["patches"][n]["oid"] not in aoids
                                         for n in pst["unapplied"] + pst["hidden"])
                if consistent:
                    for k in ("applied", "unapplied", "hidden"):
                        if st[k] != pst[k]:
                            return ("stg repair on a consistent stack changed the %s patches: %r -> %r"
                                    % (k, pst[k], st[k]))
                    if {n: v["oid"] for n, v in st["patches"].items()} != {n: v["oid"] for n, v in pst["patches"].items()}:
                        return "stg repair on a consistent stack changed a patch's commit"
                path = real.r.git(["rev-list", "--first-parent", snap["branch"]]).stdout.split()
                stop = len(path)
                for k, o in enumerate(path):
                    if len(real.r.git(["rev-list", "--parents", "-n", "1", o]).stdout.split()) != 2:
                        stop = k                  # a merge (or the root): repair does not look below it
                        break
                on_path = set(path[:stop])
                # a patch that was applied and whose commit is still on the path stays applied (two
                # patches may share one commit object: the applied one is the one repair must find)
                demoted = [n for n in pst["applied"] if n in st["patches"] and n not in st["applied"]
                           and pst["patches"][n]["oid"] in on_path
                           and st["patches"][n]["oid"] == pst["patches"][n]["oid"]]
                if demoted:
                    return ("stg repair made %r unapplied although they were applied and their commits are still "
                            "on the first-parent path of the branch" % demoted)
                left = [n for n in st["unapplied"] + st["hidden"] if st["patches"][n]["oid"] in on_path]
                base_like = [n for n in left]
                if left and not st["applied"]:
                    return ("stg repair applied nothing although the commits of %r are on the first-parent path "
                            "of the branch" % left)
                if st["applied"]:
                    # every patch commit ABOVE the lowest applied patch on the path must be applied too
                    low = min(path.index(st["patches"][n]["oid"]) for n in st["applied"] if st["patches"][n]["oid"] in path) \
                        if any(st["patches"][n]["oid"] in path for n in st["applied"]) else None
                    if low is not None:
                        missed = [n for n in left if path.index(st["patches"][n]["oid"]) < low]
                        if missed:
                            return "stg repair left %r unapplied although their commits are above applied patches on the branch" % missed
        if c.get("rt") == "begin":
            self.rt = prev if ex == 0 else None
        if c.get("rt") == "end":
            rt, self.rt = getattr(self, "rt", None), None
            label = c.get("rt_label", "commit -n k; uncommit <same names>")
            if rt is not None and ex == 0:
                # the round-trip theorems (C12_commit_uncommit_roundtrip, C12_uncommit_commit_roundtrip,
                # C07_pop_push_roundtrip), read off the real repository
                for k in ("applied", "unapplied", "hidden"):
                    if st[k] != rt["st"][k]:
                        return "%s changed the %s patches: %r -> %r" % (label, k, rt["st"][k], st[k])
                if {n: v["oid"] for n, v in st["patches"].items()} != {n: v["oid"] for n, v in rt["st"]["patches"].items()}:
                    return "%s did not give every patch the commit it had" % label
                if cur["branch"] != rt["branch"] or cur["wt"] != rt["wt"] or cur["status"] != rt["status"]:
                    return "%s changed the branch head, index or work tree" % label
            elif rt is not None and ex != 0:
                return "%s: the second command failed (exit %r) after the first had succeeded" % (label, ex)
        if c["c"] == "uncommit":
            if cur["branch"] != prev["branch"] or cur["wt"] != prev["wt"] or cur["status"] != prev["status"]:
                return "stg uncommit changed the branch head, index or work tree"
            if ex == 0:
                new = [n for n in st["applied"] if n not in pst["applied"]]
                if st["applied"][len(new):] != pst["applied"]:
                    return "stg uncommit did not put the new patches below the applied ones"
                # the new patches are the commits that lay below the old base, unchanged, in order
                below = real.r.git(["rev-list", "--first-parent", "-n", str(len(new)),
                                    (pst["patches"][pst["applied"][0]]["oid"] + "^") if pst["applied"] else prev["branch"]],
                                   check=False).stdout.split()
                if [st["patches"][n]["oid"] for n in new] != list(reversed(below)):
                    return "stg uncommit: the new patches are not the commits below the old base, in order"
                if not c.get("names"):
                    # generated names: each is derived from the message of ITS OWN commit
                    for n in new:
                        subj = real.r.git(["log", "-1", "--format=%s", st["patches"][n]["oid"]]).stdout.strip()
                        slug = re.sub(r"[^a-z0-9]+", "-", subj.lower()).strip("-")
                        # compared on letters and digits only (which punctuation survives in a name is
                        # C14's business); uniquify bumps a trailing number or appends -N
                        alnum = lambda x: re.sub(r"[^a-z0-9]", "", re.sub(r"-?\d+$", "", x.lower()))
                        if subj.isascii() and slug and len(slug) <= 30 and alnum(n) != alnum(slug):
                            return ("stg uncommit named the commit with subject %r %r (names are derived from each "
                                    "commit's own message)" % (subj, n))
        if c["c"] == "commit" and ex == 0:
            gone = [n for n in pst["applied"] + pst["unapplied"] if n not in st["patches"]]
            chosen = commit_selection(c, pst)
            if chosen is not None and set(gone) != chosen:
                return ("stg commit removed %r from the stack, the arguments choose %r (an open range ends at the "
                        "topmost APPLIED patch)" % (gone, sorted(chosen)))
            hist = set(real.r.git(["rev-list", "--first-parent", snap["branch"]]).stdout.split())
            k = len(gone)
            if gone == pst["applied"][:k]:
                # bottom-most patches: no commit changes, head unchanged
                if cur["branch"] != prev["branch"]:
                    return "committing the bottom-most patches changed the branch head"
                for n in gone:
                    if pst["patches"][n]["oid"] not in hist:
                        return "commit of committed patch %r is no longer in the branch history" % n
            # any selection: the base moves over exactly the committed patches, in stack order,
            # each keeping its authorship and message (the re-merged trees above a non-bottom
            # selection may legitimately differ, so no tree is compared here)
            g = real.r.git

            def base_of(s, branch):
                if s["applied"]:
                    return g(["rev-parse", s["patches"][s["applied"][0]]["oid"] + "^"]).stdout.strip()
                return branch
            b0, b1 = base_of(pst, prev["branch"]), base_of(st, cur["branch"])
            between = g(["rev-list", "--first-parent", "--reverse", "%s..%s" % (b0, b1)], check=False).stdout.split()
            if len(between) != k:
                return "stg commit of %d patch(es) moved the base over %d commit(s)" % (k, len(between))
            ident = lambda o: g(["log", "-1", "--format=%an%x00%ae%x00%ad%x00%B", o]).stdout
            want = [ident(pst["patches"][n]["oid"]) for n in pst["applied"] + pst["unapplied"] if n in gone]
            got = [ident(o) for o in between]
            if any(n in pst["unapplied"] for n in gone):
                # unapplied patches are pushed first: only the set is pinned down by the property
                got, want = sorted(got), sorted(want)
            if got != want:
                return ("the commits between the old and the new base are not the committed patches in stack "
                        "order: %r vs %r; before %r/%r after %r/%r gone %r" % ([x[:60] for x in got], [x[:60] for x in want], pst["applied"], pst["unapplied"], st["applied"], st["unapplied"], gone))
        return None


class DirtyOracle:
    """C10: the content of every file with uncommitted modifications, and of every untracked
    file, is the same after a command as before - unless the command is a documented discard
    (--hard) or absorbs the changes on purpose (refresh; spill moves changes INTO the tree)."""

    def __init__(self):
        self.before = None

    def dirty_files(self, real):
        out = {}
        st = real.r.git(["status", "--porcelain", "-uall"]).stdout
        for line in st.split("\n"):
            if not line:
                continue
            path = line[3:]
            if " -> " in path:
                path = path.split(" -> ")[1]
            full = os.path.join(real.r.path, path)
            try:
                out[path] = open(full, "rb").read()
            except OSError:
                out[path] = None          # deleted in the work tree
        return out

    def __call__(self, real, snap, graph, i, c, ex, stderr):
        before, self.before = self.before, self.dirty_files(real)
        if before is None:
            return None
        k = c["c"]
        if k in ("gedit", "gcommit", "gamend", "gmerge", "greset", "gconfig", "spill"):
            return None
        if "hard" in c.get("flags", []):
            return None
        target_applied_below_top = False
        if k == "refresh":
            # refresh "completes with those contents intact": judged when it succeeds (a conflict halt
            # leaves markers by design), and not for an UNAPPLIED target, where the changes leave the
            # work tree with the patch they were put into
            if ex != 0:
                return None
            st = stack_json(real, snap)
            if c.get("patch") is not None:
                if st is None or c["patch"] not in st["applied"]:
                    return None
                target_applied_below_top = st["applied"][-1] != c["patch"]
        for path, content in before.items():
            full = os.path.join(real.r.path, path)
            try:
                now = open(full, "rb").read()
            except OSError:
                now = None
            if now != content:
                if ex == 3 and content is not None:
                    # a conflict halt: when the content the user had is byte for byte "our" side of the
                    # conflict (index stage 2) it coincided with the tree the command checked out - git's
                    # two-way merge carries such a file over as clean - and it is still there, as one side
                    # of the conflict; nothing of the user's was lost
                    ours = subprocess.run(["git", "show", ":2:" + path], cwd=real.r.path, env=real.r.env(),
                                          capture_output=True)
                    if ours.returncode == 0 and ours.stdout == content:
                        continue
                if k == "refresh" and target_applied_below_top:
                    # known finding F43: the change went into the named patch, and a patch above it sets
                    # the region back (or became empty) when pushed onto it again
                    return ("refresh-p-overridden: `stg refresh -p %s` succeeded but %r no longer has the content the "
                            "user had written (a patch above the refreshed one overrides it)" % (c["patch"], path))
                return "uncommitted content of %r was changed by `stg %s` (exit %r)" % (path, k, ex)
        return None


def cell_merge(b, o, t):
    out = []
    for x, y, z in zip(b, o, t):
        if z == x:
            out.append(y)
        elif y == x:
            out.append(z)
        elif y == z:
            out.append(y)
        else:
            return None
    return out


class ContentOracle:
    """C07, content part, computed independently of the model: a patch re-created by a
    reordering command carries exactly the cell-wise three-way merge of (old parent tree, new
    parent tree, old patch tree); popping never creates or alters a commit."""

    REORDER = ("push", "pop", "goto", "float", "sink", "delete", "hide", "unhide", "commit", "clean", "rename")

    def __init__(self):
        self.prev = None

    def __call__(self, real, snap, graph, i, c, ex, stderr):
        st = stack_json(real, snap)
        cur = {k: v["oid"] for k, v in st["patches"].items()} if st else {}
        prev, self.prev = self.prev, cur
        head_before, self.head_tree = getattr(self, "head_tree", None), real.commit_info(snap["branch"])["tree"]
        applied_before, self.prev_applied = getattr(self, "prev_applied", []), (list(st["applied"]) if st else [])
        if prev is None or st is None or c["c"] not in self.REORDER or ex not in (0, 3):
            return None
        merged_set = set()
        if "merged" in c.get("flags", []) and head_before:
            # --merged, as documented: walking the patches to push from the last to the first,
            # a patch whose reverse applies to the (progressively reverted) tree that was checked
            # out before the command counts as merged upstream and is pushed as an empty patch
            prev_applied = set(applied_before)
            pushed = [n for n in st["applied"] if n not in prev_applied and n in prev]
            t = list(head_before)
            for n in reversed(pushed):
                oi0 = real.commit_info(prev[n])
                if not oi0["parents"]:
                    continue
                op0 = real.commit_info(oi0["parents"][0])
                if oi0["tree"] is None or op0["tree"] is None:
                    continue
                ch = [k for k in range(len(t)) if op0["tree"][k] != oi0["tree"][k]]
                if all(t[k] == oi0["tree"][k] for k in ch):
                    merged_set.add(n)
                    for k in ch:
                        t[k] = op0["tree"][k]
        for n, oid in cur.items():
            old = prev.get(n)
            if old is None or old == oid:
                continue
            oi, ni = real.commit_info(old), real.commit_info(oid)
            if not oi["parents"] or not ni["parents"]:
                continue
            op, np_ = real.commit_info(oi["parents"][0]), real.commit_info(ni["parents"][0])
            if None in (oi["tree"], ni["tree"], op["tree"], np_["tree"]):
                continue
            if c["c"] == "pop" and not c.get("ranges"):
                return "popping re-created the commit of patch %r" % n
            if "set-tree" in c.get("flags", []):
                continue                         # --set-tree keeps the patch's tree by definition
            exp = cell_merge(op["tree"], np_["tree"], oi["tree"])
            if n in merged_set and ni["tree"] == np_["tree"]:
                if exp is not None and ni["tree"] != exp:
                    # emptied by definition of --merged although the patches pushed beneath it
                    # re-introduce what it undoes: its change is lost (known finding F37)
                    return ("merged-heuristic: --merged emptied patch %r (its reverse applies to the tree "
                            "checked out before the push) although the patches pushed beneath it re-introduce "
                            "what it undoes" % n)
                continue                         # merged upstream: an empty patch is the documented result
            if exp is None:
                if ex == 0 and n in st["applied"]:
                    return "patch %r was pushed without a conflict although its change overlaps what lies beneath" % n
                continue
            if ni["tree"] != exp:
                return "pushed patch %r does not carry the three-way merge of (old parent, new parent, patch): %r != %r" % (
                    n, ni["tree"], exp)
            if ni["meta"] != oi["meta"]:
                return "re-created patch %r changed its message" % n
        return None


def _entries(real, log):
    """[(kind, n, state oid)] newest first, from the messages of the real state commits"""
    out = []
    for so in log:
        msg = real.commit_info(so)["msg"]
        f = msg.split()
        kind, n = "op", 0
        if len(f) == 2 and f[0] in ("undo", "redo"):
            try:
                kind, n = f[0], int(f[1])
            except ValueError:
                pass
        out.append((kind, n, so))
    return out


def _eff(entries):
    if not entries:
        return []
    kind, n, so = entries[0]
    rest = _eff(entries[1:])
    if kind == "undo":
        return rest[n:]
    return [so] + rest


def _redo_stack(entries):
    if not entries:
        return []
    kind, n, so = entries[0]
    if kind == "op":
        return []
    if kind == "undo":
        return ([entries[1][2]] + _redo_stack(entries[1:])) if len(entries) > 1 else []
    return _redo_stack(entries[1:])[n:]


def _check_against_log(self, real, snap, st, log, c):
    before = _entries(real, log[1:])          # the log the command saw (incl. an external-mods entry)
    n = c.get("n", 1)
    if c["c"] == "undo":
        tl = _eff(before)
        target = tl[n] if n < len(tl) else None
    else:
        rs = _redo_stack(before)
        target = rs[n - 1] if 0 < n <= len(rs) else None
    if target is None:
        return "%s -n %d succeeded although the log has no such state" % (c["c"], n)
    ts = real.commit_info(target)["state"]
    if ts is None:
        return None
    same = (st["applied"] == ts["applied"] and st["unapplied"] == ts["unapplied"] and st["hidden"] == ts["hidden"]
            and {k: v["oid"] for k, v in st["patches"].items()} == {k: v["oid"] for k, v in ts["patches"].items()}
            and st["head"] == ts["head"])
    if not same:
        return "%s -n %d did not restore the state the log designates (entry %s)" % (c["c"], n, target[:8])
    if snap["branch"] != ts["head"]:
        return "%s -n %d: the branch head is not the head recorded in the restored state" % (c["c"], n)
    return None


LogOracle.check_against_log = _check_against_log


def oracle_c09(real, snap, graph, i, c, ex, stderr):
    """after a conflict halt the conflicting patch is applied on top as an empty commit and
    the index has unmerged entries"""
    if ex != 3 or "merge conflicts" not in stderr:
        return None
    st = stack_json(real, snap)
    if st is None or not st["applied"]:
        return "conflict halt but nothing applied"
    top = st["patches"][st["applied"][-1]]["oid"]
    ci = real.commit_info(top)
    if len(ci["parents"]) != 1:
        return "conflicting patch commit does not have one parent"
    par = real.commit_info(ci["parents"][0])
    if ci["tree"] != par["tree"]:
        return "conflicting patch is not recorded as an empty commit"
    if not snap["unmerged"]:
        return "conflict halt without unmerged index entries"
    if snap["branch"] != top:
        return "branch head is not the conflicting patch"
    return None


def oracle_halt_keeps_patches(state):
    """C09: a command that stops with a conflict leaves every patch of the stack in exactly one
    list - the ones it did not get to are unapplied (hidden ones stay hidden); only `delete`
    and `commit` may remove the patches they were given"""
    def orc(real, snap, graph, i, c, ex, stderr):
        st = stack_json(real, snap)
        fail = None
        cur = None
        if st is not None:
            cur = {"A": list(st["applied"]), "U": list(st["unapplied"]), "H": list(st["hidden"]),
                   "P": set(st["patches"])}
        prev = state.get("prev")
        if ex == 3 and prev and cur:
            listed = cur["A"] + cur["U"] + cur["H"]
            before = set(prev["A"] + prev["U"] + prev["H"])
            if len(set(listed)) != len(listed):
                fail = "after the conflict halt a patch is listed twice: %r" % listed
            elif set(listed) != cur["P"]:
                fail = "after the conflict halt the patch map and the lists disagree: %r vs %r" % (
                    sorted(cur["P"]), listed)
            elif c["c"] == "squash" and all(x in before for x in c.get("ranges") or []):
                # the squashed patches are replaced by the new one; pushing back what lay above may conflict
                if not before - set(c["ranges"]) <= set(listed):
                    fail = "the conflict halt dropped patches the squash was not given: %r" % sorted(
                        before - set(c["ranges"]) - set(listed))
            elif c["c"] not in ("delete", "commit", "clean", "squash") and not before <= set(listed):
                fail = "the conflict halt dropped patches from the stack: %r" % sorted(before - set(listed))
            elif all(x in before for x in (c.get("ranges") or []) + ([c["loc"]] if c.get("loc") else [])) and \
                    not set(prev["H"]) - set(c.get("ranges") or []) - ({c.get("loc")} if c.get("loc") else set()) <= set(cur["H"]):
                # (only when the arguments are plain patch names: a range such as `..q` may name hidden patches)
                fail = "the conflict halt un-hid patches the command did not name"
        state["prev"] = cur
        return fail
    return orc


class OrderOracle:
    """C07, list part, computed independently of the model for commands whose arguments are
    plain patch names: the named patches end up at the requested place, adjacent and in the
    requested order; every other patch keeps its position relative to the other others."""

    def __init__(self):
        self.prev = None

    def __call__(self, real, snap, graph, i, c, ex, stderr):
        st = stack_json(real, snap)
        cur = (list(st["applied"]), list(st["unapplied"]), list(st["hidden"])) if st else None
        prev, self.prev = self.prev, cur
        k = c["c"]
        if prev is None or cur is None or ex != 0 or k not in ("sink", "float", "push"):
            return None
        A0, U0, H0 = prev
        A1, U1, H1 = cur
        names = c.get("ranges")
        if not names or any(n not in A0 + U0 for n in names) or len(set(names)) != len(names):
            return None                       # ranges / locators / hidden patches: left to the model
        if any(f in c.get("flags", []) for f in ("noapply", "reverse", "all")) or c.get("n") is not None:
            return None
        others0 = [n for n in A0 + U0 if n not in names]
        others1 = [n for n in A1 + U1 if n not in names]
        if others0 != others1:
            return "`stg %s` changed the relative order of patches it was not given: %r -> %r" % (k, others0, others1)
        pos = [(A1 + U1).index(n) for n in names if n in A1 + U1]
        if len(pos) != len(names):
            return "`stg %s` lost a patch it was given" % k
        if k in ("sink", "float") and sorted(pos) != list(range(min(pos), min(pos) + len(pos))):
            return "`stg %s %s` did not put the named patches next to each other: %r" % (k, names, A1 + U1)
        if k == "float" and [n for n in A1 if n in names] == names and A1[-len(names):] != names:
            return "`stg float %s` did not put the patches on top in the given order: %r" % (names, A1)
        if k == "push" and A1[-len(names):] != names:
            return "`stg push %s` did not put the patches on top in the given order: %r" % (names, A1)
        if k == "sink":
            t = c.get("target")
            seq = A1 + U1
            lo, hi = min(pos), max(pos)
            if t is not None and t in A0 and t not in names:
                ti = seq.index(t)
                if c.get("above") and ti != lo - 1:
                    return "`stg sink --above %s %s`: the patches are not directly above the target: %r" % (t, names, seq)
                if not c.get("above") and ti != hi + 1:
                    return "`stg sink --to %s %s`: the patches are not directly below the target: %r" % (t, names, seq)
            if t is None and lo != 0:
                return "`stg sink %s` did not put the patches at the bottom: %r" % (names, seq)
        return None


def oracle_fail_keeps_refs(state):
    """C03 without any fault injection: a command error (exit 2) leaves the branch, the state ref
    and the patch refs exactly as they were.  undo / redo record an external modification before
    they start (their own log entry, by design); refresh and rebase consist of several
    transactions (known finding F38 covers the first having been published)"""
    def orc(real, snap, graph, i, c, ex, stderr):
        refs = real.r.git(["for-each-ref", "--format=%(refname) %(objectname)", "refs/heads/main", "refs/stacks/main",
                           "refs/patches/main/"]).stdout
        prev, state["refs"] = state.get("refs"), refs
        if prev is None or ex != 2 or c["c"] in ("undo", "redo", "refresh", "rebase") or c["c"].startswith("g"):
            return None
        if "refs/stacks/main " not in prev and "refs/stacks/main " in refs and \
                [l for l in refs.split("\n") if not l.startswith("refs/stacks/main ")] == prev.split("\n"):
            return None      # opening the stack initialised it (a completed step of its own) before the command failed
        if refs != prev:
            changed = sorted(set(prev.split("\n")) ^ set(refs.split("\n")))
            names = sorted({x.split(" ")[0] for x in changed})
            if names == ["refs/stacks/main"] and ("HEAD and stack top are not the same" in stderr
                                                   or "git read-tree" in stderr or "git checkout" in stderr):
                msg = real.r.git(["log", "-1", "--format=%s", "refs/stacks/main"]).stdout.strip()
                if msg == "external modifications":
                    # known finding F24, met without any injected fault: execute() records the
                    # external modification and only then runs the head/top test resp. the check-out
                    return "extmods: `stg %s` failed after log_external_mods had published its entry" % c["c"]
            return "`stg %s` failed (exit 2) but changed refs: %r" % (c["c"], names[:6])
        return None
    return orc


def oracle_conflict_guard(state):
    """while unmerged entries exist, commands that must check out another tree change nothing"""
    def orc(real, snap, graph, i, c, ex, stderr):
        fail = None
        was_unmerged = state.get("unmerged", False)
        if was_unmerged and c["c"] in ("push", "pop", "goto", "float", "sink", "delete", "new", "refresh", "spill") \
                and not (c["c"] in ("push", "pop") and c.get("n") == 0):
            if ex == 0 and state.get("refs") != (snap["branch"], snap["stack"]):
                # (a selection that turns out empty, e.g. `pop -n -1` with one applied patch, is
                # a successful no-op before any check: nothing was done, nothing recorded)
                fail = "command succeeded although unresolved conflicts exist"
            elif ex != 0 and state.get("refs") != (snap["branch"], snap["stack"]):
                fail = "command refused because of conflicts but changed refs"
        if was_unmerged and c["c"] == "undo" and "hard" not in c.get("flags", []):
            if ex == 0:
                fail = "undo without --hard succeeded although unresolved conflicts exist"
        state["unmerged"] = snap["unmerged"]
        state["refs"] = (snap["branch"], snap["stack"])
        return fail
    return orc


def oracle_conflicts_disallowed(state):
    """C09: "with conflicts disallowed the conflicting patch stays unapplied and the tree stays
    clean" - while stgit.push.allow-conflicts is false, no command that was not given
    --conflicts=allow leaves unmerged entries behind (it may halt with status 3, but then with a
    clean index and the conflicting patch unapplied)"""
    def orc(real, snap, graph, i, c, ex, stderr):
        fail = None
        if c["c"] == "gconfig":
            state["apc"] = c["apc"]
        elif (state.get("apc", True) is False and c.get("conflicts") != "allow" and snap["unmerged"]
              and not state.get("unmerged", False)):
            fail = ("stgit.push.allow-conflicts is false and no --conflicts=allow was given, but the command left "
                    "unmerged entries in the index")
        state["unmerged"] = snap["unmerged"]
        return fail
    return orc


# ----------------------------------------------------------------------------- running

def _worker(args):
    (stg, driver, upath, seed, profile_name, nsteps, oracle_names, tag) = args
    rng = random.Random(seed)
    chooser = gen_hist.Chooser(rng, getattr(gen_hist, profile_name))
    oracles = build_oracles(oracle_names)
    try:
        res = hist.run_scenario(stg, driver, upath, None, chooser=chooser, max_steps=nsteps,
                                oracles=oracles, tag="%s%d" % (tag, seed % 100000))
    except Exception as e:  # harness trouble is reported, not swallowed
        import traceback
        return {"seed": seed, "profile": profile_name, "error": traceback.format_exc()[-1500:], "steps": [],
                "exits": [], "mismatch": None, "oracle_failures": []}
    res["seed"] = seed
    res["profile"] = profile_name
    return res


def build_oracles(names):
    out = [Tracker()]
    for n in names:
        if n == "c20":
            out.append(oracle_c20)
        elif n == "c01":
            out += [oracle_c01, oracle_c01_refnames]
        elif n == "c02":
            out.append(oracle_c02)
        elif n == "c06":
            out.append(oracle_c06)
        elif n == "log":
            out.append(LogOracle())
        elif n == "c09":
            out += [oracle_c09, oracle_conflict_guard({}), oracle_halt_keeps_patches({}), oracle_conflicts_disallowed({})]
        elif n == "prev":
            out.append(PrevOracle())
        elif n == "failkeeps":
            out.append(oracle_fail_keeps_refs({}))
        elif n == "dirty":
            out.append(DirtyOracle())
        elif n == "content":
            out += [ContentOracle(), OrderOracle()]
    return out


def run_fixed(stg, driver, upath, steps, oracle_names, tag):
    # a scripted scenario is played to its end on the real repository even after the model and the
    # implementation disagreed (only the first disagreement is recorded): the direct oracles judge
    # the steps that follow, where the consequence of a divergence often shows
    return hist.run_scenario(stg, driver, upath, steps, oracles=build_oracles(oracle_names), tag=tag, keep_going=True)


def corpus_files():
    d = os.path.join(common.VERIF, "corpus")
    return sorted(os.path.join(d, f) for f in os.listdir(d) if f.startswith("hist-") and f.endswith(".json")) \
        if os.path.isdir(d) else []


def run_extras(ctx, stg, oracle_names):
    """scripted scenarios for commands outside the model, judged by the direct oracles"""
    from . import extras
    known = load_known(ctx.prop)
    n, failures = extras.run_scenarios(stg, list(oracle_names), tag=ctx.prop.lower() + "x")
    for f in failures[:4]:
        if f["why"].startswith("exit status") and ctx.prop != "C20":
            continue
        k = match_known(known, {"cmd": {"c": f["steps"][-1][1] if len(f["steps"][-1]) > 1 else ""}, "why": f["why"],
                                "stderr": f.get("stderr", "")})
        if k:
            ctx.known.append("%s: %s" % (k["id"], k["what"]))
            continue
        common.violation(ctx, {"obligation": "direct-oracle:%s:outside-model" % ctx.prop, **f}, found_input=True,
                         hint="extra-")
    ctx.coverage["outside_model_commands"] = n
    ctx.coverage["evaluations"] = ctx.coverage.get("evaluations", 0) + n


def run_property(ctx, profiles, oracle_names, n_quick, n_thorough, nsteps=30, prop_file=None,
                 own_oracle="", extra_trusted=(), with_extras=False):
    """profiles: list of (profile name, weight).  Returns nothing; fills ctx."""
    stg = common.build_stg()
    broken = gate.coq_gate(ctx, prop_file)
    driver = common.build_driver()
    upath = funcorr.unicode_dump(stg)
    known = load_known(ctx.prop)
    oracle_names = list(oracle_names)
    if "c20" not in oracle_names:
        oracle_names.append("c20")

    results = []
    # 1. corpus first
    for path in corpus_files():
        steps = json.load(open(path))
        res = run_fixed(stg, driver, upath, steps, oracle_names, "c")
        res["seed"] = os.path.basename(path)
        res["profile"] = "corpus"
        results.append(res)
    # 2. generated scenarios, in parallel
    n = n_quick if ctx.quick() else n_thorough
    jobs = []
    total_w = sum(w for _, w in profiles)
    for name, w in profiles:
        k = max(1, int(round(n * w / total_w)))
        for _ in range(k):
            jobs.append((stg, driver, upath, ctx.rng.randrange(1 << 30), name, nsteps, oracle_names, ctx.prop.lower()))
    with multiprocessing.Pool(min(14, max(1, len(jobs)))) as pool:
        results += pool.map(_worker, jobs, chunksize=1)

    # 3. verdicts
    n_cmds = 0
    distinct = set()
    exits = {}
    kinds = {}
    mismatches, failures, harness_errors = [], [], []
    for res in results:
        if res.get("error"):
            harness_errors.append(res)
            continue
        for c, ex in zip(res["steps"], res["exits"]):
            n_cmds += 1
            exits[str(ex)] = exits.get(str(ex), 0) + 1
            kinds[c["c"]] = kinds.get(c["c"], 0) + 1
            distinct.add((c["c"], tuple(sorted(c.get("flags", []))), str(ex), "r" in c and bool(c.get("ranges"))))
        if res["mismatch"]:
            mismatches.append(res)
        for f in res["oracle_failures"]:
            failures.append((res, f))

    ctx.obligations += 1
    if not mismatches and not harness_errors:
        ctx.discharged += 1

    seen_known = set()
    for res, f in failures:
        k = match_known(known, f)
        replay = {"obligation": "direct-oracle:" + ctx.prop, "why": f["why"], "failing_step": f["step"],
                  "scenario": res["steps"][: f["step"] + 1], "exit": f.get("exit"), "stderr": f.get("stderr"),
                  "seed": res["seed"], "profile": res["profile"]}
        own = own_oracle and not f["why"].startswith("exit status")
        relevant = (ctx.prop == "C20") or own or not f["why"].startswith("exit status")
        if not relevant:
            continue        # panics are C20's business (reported by ./check C20)
        if k:
            if k["id"] not in seen_known:
                seen_known.add(k["id"])
                ctx.known.append("%s: %s" % (k["id"], k["what"]))
            continue
        common.violation(ctx, replay, found_input=True, hint="oracle-")
    for res in mismatches[:4]:
        m = res["mismatch"]
        replay = {"obligation": "correspondence:%s:history" % ctx.prop, "diff": m.get("diff") or m.get("why"),
                  "failing_step": m["step"], "scenario": res["steps"][: m["step"] + 1],
                  "impl_exit": m.get("impl_exit"), "model_exit": m.get("model_exit"), "stderr": m.get("stderr"),
                  "seed": res["seed"], "profile": res["profile"]}
        # a model/implementation disagreement is a violation with a failing input only if a
        # direct oracle also fails on that scenario; otherwise the tie is what broke
        has_oracle_fail = any(r is res for r, _ in failures)
        if not has_oracle_fail:
            common.violation(ctx, replay, found_input=False, hint="corr-")
    for res in harness_errors[:2]:
        common.violation(ctx, {"obligation": "harness", "error": res["error"], "seed": res["seed"]},
                         found_input=False, hint="harness-")
    if broken and not ctx.violations:
        common.violation(ctx, {"obligation": "Properties/%s.v" % (prop_file or ctx.prop), "broken": broken,
                               "searched": "%d generated commands, %d corpus scenarios: no failing input"
                                           % (n_cmds, len(corpus_files()))},
                         found_input=False, hint="proof-")
    elif broken:
        ctx.coverage["broken_obligations"] = broken

    sample = []
    for res in results[:2] + results[-2:]:
        if res.get("steps"):
            sample.append({"profile": res["profile"], "seed": res["seed"],
                           "steps": res["steps"][:6], "exits": res["exits"][:6]})
    ctx.coverage.update({
        "evaluations": n_cmds,
        "distinct_nontrivial": len(distinct),
        "rule": "adaptive scenarios (harness/gen_hist.py) from PRNG seed %d, profiles %r, %d steps each, plus the "
                "corpus; every command runs on the real stg and on the extracted model and is compared after "
                "canonicalising object ids; distinct = distinct (command, flags, exit status, has-ranges)"
                % (ctx.seed, [p for p, _ in profiles], nsteps),
        "samples": sample,
        "traces_validated_against_impl": n_cmds,
        "scenarios": len(results),
        "exit_distribution": exits,
        "command_distribution": kinds,
        "model_impl_disagreements": len(mismatches),
        "direct_oracle_failures": len(failures),
        "direct_oracles": oracle_names,
    })
    if with_extras:
        run_extras(ctx, stg, [n for n in oracle_names])
    ctx.assumptions += [
        "scenario corpus: 3 files x 3 regions + 3 one-cell files; blobs rendered as region lines separated by 5 "
        "constant padding lines so that git merges region-wise",
        "work tree model: index = work tree (no partially staged files)",
    ] + list(extra_trusted)


def replay_scenario(ctx, path, oracle_names):
    doc = json.load(open(path))
    steps = doc.get("scenario")
    if not steps:
        print("nothing replayable in", path)
        return 1
    stg = common.build_stg()
    driver = common.build_driver()
    upath = funcorr.unicode_dump(stg)
    res = run_fixed(stg, driver, upath, steps, list(oracle_names) + ["c20"], "r")
    print(json.dumps({"exits": res["exits"], "mismatch": res["mismatch"], "oracle_failures": res["oracle_failures"]},
                     indent=1, default=str)[:3000])
    return 1 if (res["mismatch"] or res["oracle_failures"]) else 0
