"""Runs the translator (/verif/translator, Rust + syn) that regenerates coq/Gen/*.v from
the current working tree of /repo."""

import os
import shutil

from . import common

TR = os.path.join(common.VERIF, "translator")


def build():
    with common.Lock("translator"):
        lock_src = os.path.join(common.REPO, "Cargo.lock")
        lock_dst = os.path.join(TR, "Cargo.lock")
        if not os.path.exists(lock_dst):
            shutil.copy(lock_src, lock_dst)
        p = common.run(
            ["cargo", "build", "--offline", "--release", "--quiet"],
            cwd=TR,
            env={"CARGO_TARGET_DIR": os.path.join(common.CACHE, "translator-target")},
            timeout=900,
        )
        if p.returncode != 0:
            raise common.BuildError("translator build failed:\n" + p.stderr[-3000:])
    return os.path.join(common.CACHE, "translator-target", "release", "stgit-translator")


def regenerate():
    """Returns (ok, message).  ok=False when the translator itself failed; `Unknown`
    entries are not failures here (obligations in Coq decide)."""
    try:
        exe = build()
    except common.BuildError as e:
        return False, str(e)
    gen = os.path.join(common.COQ, "Gen")
    tmp = os.path.join(common.CACHE, "gen-tmp")
    shutil.rmtree(tmp, ignore_errors=True)
    os.makedirs(tmp)
    p = common.run([exe, os.path.join(common.REPO, "src"), tmp], timeout=120)
    if p.returncode != 0:
        return False, "translator exit %d: %s" % (p.returncode, p.stderr[-800:])
    os.makedirs(gen, exist_ok=True)
    changed = []
    with common.Lock("coq"):
        for f in sorted(os.listdir(tmp)):
            new = open(os.path.join(tmp, f)).read()
            dst = os.path.join(gen, f)
            if not os.path.exists(dst) or open(dst).read() != new:
                with open(dst, "w") as out:
                    out.write(new)
                changed.append(f)
    return True, "regenerated %d files (%d changed): %s" % (
        len(os.listdir(tmp)), len(changed), p.stdout.strip()[-300:])
