"""Checks built on harness/proto.py: C03 (faults), C04 (crashes), C19 (SIGINT), C11 (two
processes)."""

import itertools
import json
import os
import subprocess
import time

from . import common, funcorr, gate, histcheck, proto, repo, rigs

POINT_INDEX = {p: i for i, p in enumerate(rigs.POINTS)}
CRITICAL = {"crit.enter", "crit.prev_read", "crit.state_committed", "crit.before_edit", "crit.after_edit"}


def known_c03_class(rec):
    idx = POINT_INDEX[rec["point"]]
    if rec["point"] in ("crit.after_edit", "exec.after_crit"):
        return "F25"
    if rec["has_ext"] and idx >= (1 if rec.get("ext_early") else 3) and rec.get("tree_unchanged", True):
        # F24 is exactly: the extra "external modifications" entry stays (the state ref moved);
        # index and work tree are as they were - a roll-back to a wrong tree is NOT this class
        return "F24"
    if rec["has_wt_merge"] and idx >= 2:
        return "F11"
    return None


def summarize(ctx, results, kinds):
    n_rec = sum(len(r["records"]) for r in results)
    distinct = set()
    for r in results:
        for rec in r["records"]:
            distinct.add((r["case"], rec["kind"], rec["point"], rec["exit"]))
    ctx.coverage.update({
        "evaluations": n_rec,
        "distinct_nontrivial": len(distinct),
        "rule": "every transaction command of the corpus (harness/proto.py CASES) x every program point reached "
                "by its fault-free run x observers %r; distinct = distinct (case, observer, point, exit)" % (kinds,),
        "cases": [r["case"] for r in results],
        "traces_validated_against_impl": n_rec,
        "samples": [{"case": r["case"], "plan": r.get("plan"),
                     "first_records": [{k: rec[k] for k in ("kind", "point", "nth", "exit", "pred", "agree")}
                                       for rec in r["records"][:3]]} for r in results[:3]],
        "exhaustive": True,
    })


def base_run(ctx, kinds, cases=None):
    stg = common.build_stg()
    broken = gate.coq_gate(ctx)
    driver = common.build_driver()
    upath = funcorr.unicode_dump(stg)
    results = proto.run_cases(stg, driver, upath, kinds, cases, tag=ctx.prop.lower())
    ctx.obligations += 1
    disagreements = []
    for r in results:
        if r["error"]:
            common.violation(ctx, {"obligation": "harness", "case": r["case"], "error": r["error"]},
                             found_input=False, hint="harness-")
        for rec in r["records"]:
            if not rec["agree"]:
                disagreements.append((r, rec))
    if not disagreements:
        ctx.discharged += 1
    summarize(ctx, results, kinds)
    ctx.coverage["model_impl_disagreements"] = len(disagreements)
    return stg, driver, upath, results, broken, disagreements


def finish_run(ctx, broken, disagreements, had_oracle_failure):
    for r, rec in disagreements[:3]:
        if not had_oracle_failure:
            common.violation(ctx, {"obligation": "correspondence:%s:protocol" % ctx.prop, "case": r["case"],
                                   "cmd": [c for c in proto.CASES if c[0] == r["case"]][0][2],
                                   "setup": [c for c in proto.CASES if c[0] == r["case"]][0][1],
                                   "observer": rec["kind"], "point": rec["point"], "nth": rec["nth"],
                                   "predicted": rec["pred"], "observed_refs": rec["o_refs"],
                                   "observed_tree": rec["o_tree"], "exit": rec["exit"]},
                             found_input=False, hint="corr-")
    if broken and not ctx.violations:
        common.violation(ctx, {"obligation": "Properties/%s.v" % ctx.prop, "broken": broken,
                               "searched": "all corpus cases x points: no failing input"},
                         found_input=False, hint="proof-")
    elif broken:
        ctx.coverage["broken_obligations"] = broken


def case_by_name(name):
    return [c for c in proto.CASES if c[0] == name][0]


def replay_doc(r, rec, why):
    c = case_by_name(r["case"])
    return {"obligation": "direct-oracle", "why": why, "case": r["case"], "setup": c[1], "cmd": c[2],
            "observer": rec["kind"], "point": rec["point"], "nth": rec["nth"], "exit": rec["exit"],
            "stderr": rec.get("stderr"), "recovery": rec.get("recovery")}


# ----------------------------------------------------------------------------- C03

def consistent_stack(r_refs, repo_path, scratch):
    """the recorded stack, the patch refs and the branch agree with one another"""
    so = r_refs.get("refs/stacks/main")
    sj = proto.stack_json_of(scratch, so) if so else None
    if not sj:
        return False
    allp = sj["applied"] + sj["unapplied"] + sj["hidden"]
    if len(set(allp)) != len(allp) or set(allp) != set(sj["patches"]):
        return False
    prefs = {k[len("refs/patches/main/"):]: v for k, v in r_refs.items() if k.startswith("refs/patches/main/")}
    if prefs != {pn: pv["oid"] for pn, pv in sj["patches"].items()}:
        return False
    if sj["applied"] and sj["patches"][sj["applied"][-1]]["oid"] != r_refs.get("refs/heads/main"):
        return False
    return sj.get("head") == r_refs.get("refs/heads/main")


def shim_enumeration(ctx, stg, cases):
    """fail every external git invocation of the command, one at a time"""
    known = histcheck.load_known("C03")
    n_runs = 0
    failures = []
    n_multi = [0]
    ctx.coverage["git_faults_after_a_completed_transaction"] = 0
    for case in cases:
        name, setup, cmd = case
        with repo.Scratch("c03s") as r:
            proto.setup_case(r, stg, setup)
            shim = rigs.GitShim(r)
            r.tick = 2000000000
            p = r.stg(stg, cmd, env=shim.env())
            calls = shim.calls()
            shim.remove()
        ncalls = len(calls)
        first_merge = next((i + 1 for i, c in enumerate(calls) if "merge-recursive" in c[1]), None)
        for k in range(1, ncalls + 1):
            with repo.Scratch("c03s") as r:
                proto.setup_case(r, stg, setup)
                s0 = proto.observe(r)
                shim = rigs.GitShim(r)
                pd = rigs.PointDir(r, "shimpt")
                r.tick = 2000000000
                env = shim.env(fail=k)
                env["STGIT_VERIF_DIR"] = pd.path
                p = r.stg(stg, cmd, env=env)
                s1 = proto.observe(r)
                cons = consistent_stack(s1["refs"], r.path, r)
                pd_log = pd.log()
                reached = {nm for (_, nm, _) in pd_log}
                pd.remove()
                shim.remove()
            n_runs += 1
            if p.returncode == 2 and (s1["refs"] != s0["refs"] or s1["tree"] != s0["tree"] or s1["unmerged"]):
                # F11 is the class "an error between the closure's work-tree merge and
                # execute()'s own check-out": once execute() has started its check-out the
                # rollback path must restore everything
                after_merge = (first_merge is not None and k > first_merge
                               and "exec.before_checkout" not in reached)
                changed = sorted(n for n in set(s0["refs"]) | set(s1["refs"]) if s0["refs"].get(n) != s1["refs"].get(n))
                known_class = "F11" if after_merge else None
                if known_class is None and changed == ["refs/stacks/main"] and s1["tree"] == s0["tree"] and "extmods" in name:
                    # the branch had been moved by plain git: log_external_mods publishes its
                    # entry before the (then failing) transaction
                    known_class = "F24"
                completed = sum(1 for (_, nm, _) in pd_log if nm == "exec.after_crit")
                if known_class is None and completed >= 1 and s1["tree"] == s0["tree"] and not s1["unmerged"] \
                        and cons:
                    # a command documented to run several transactions (refresh: create the temporary
                    # patch, then fold it in): the property asks for the state after the LAST COMPLETED
                    # transaction, which is what is left (a consistent stack, nothing lost)
                    continue
                if known_class is None and completed >= 1 and cons and not s1["unmerged"] \
                        and s1["tree"] is not None and s1["tree"] == s1.get("head_tree") \
                        and not s1["wt_differs_from_index"]:
                    # the same for a command whose completed transactions CHANGE the checked-out tree
                    # (rebase: pop everything, `git reset --hard`, push back): what is left must be a
                    # consistent stack whose branch head is exactly what index and work tree hold
                    n_multi[0] += 1
                    continue
                failures.append({"case": name, "setup": setup, "cmd": cmd, "failed_git_call": k,
                                 "call": calls[k - 1][1][:80], "exit": 2,
                                 "refs_changed": s1["refs"] != s0["refs"], "tree_changed": s1["tree"] != s0["tree"],
                                 "known": known_class, "changed_refs": changed, "stderr": p.stderr[-300:]})
            elif p.returncode not in (0, 1, 2, 3):
                failures.append({"case": name, "setup": setup, "cmd": cmd, "failed_git_call": k,
                                 "call": calls[k - 1][1][:80], "exit": p.returncode, "known": None,
                                 "stderr": p.stderr[-300:]})
    ctx.coverage["git_faults_after_a_completed_transaction"] = n_multi[0]
    return n_runs, failures


def run_c03(ctx):
    stg, driver, upath, results, broken, disagreements = base_run(ctx, ["fault"])
    known_ids = {k["id"]: k for k in histcheck.load_known("C03")}
    had = False
    seen = set()
    for r in results:
        for rec in r["records"]:
            if rec["kind"] != "fault":
                continue
            bad = None
            if rec["exit"] == 2 and not (rec["refs_unchanged"] and rec["tree_unchanged"]):
                bad = "command error (exit 2) but %s changed" % (
                    "refs" if not rec["refs_unchanged"] else "index/work tree")
            elif rec["exit"] not in (0, 2, 3):
                bad = "undocumented exit status %r" % rec["exit"]
            if bad:
                cls = known_c03_class(rec)
                if cls and cls in known_ids:
                    if cls not in seen:
                        seen.add(cls)
                        ctx.known.append("%s: %s" % (cls, known_ids[cls]["what"]))
                else:
                    had = True
                    common.violation(ctx, replay_doc(r, rec, bad), found_input=True, hint="oracle-")
    shim_cases = [proto.case_by_name(n) if hasattr(proto, "case_by_name") else case_by_name(n)
                  for n in (["pop", "push-wtmerge", "push-wtmerge-two", "delete", "refresh"] if ctx.quick() else [c[0] for c in proto.CASES])]
    n_runs, failures = shim_enumeration(ctx, stg, shim_cases)
    ctx.coverage["git_invocation_faults"] = n_runs
    ctx.coverage["evaluations"] += n_runs
    for f in failures:
        if f["known"] and f["known"] in known_ids:
            if f["known"] not in seen:
                seen.add(f["known"])
                ctx.known.append("%s: %s" % (f["known"], known_ids[f["known"]]["what"]))
        else:
            had = True
            common.violation(ctx, {"obligation": "direct-oracle:C03:git-fault", **f}, found_input=True, hint="shim-")
    finish_run(ctx, broken, disagreements, had)


# ----------------------------------------------------------------------------- C04

def edit_prefix_crashes(ctx, stg, driver, upath, cases):
    """kill just before the reference transaction, then apply every prefix of the ordered
    single-ref operations by hand (the model's commit order, checked against the dumped edit
    list) and run the recovery oracle"""
    n = 0
    failures = []
    for case in cases:
        name, setup, cmd = case
        with repo.Scratch("c04e") as r:
            proto.setup_case(r, stg, setup)
            pd = rigs.PointDir(r)
            r.tick = 2000000000
            rigs.run_with_point(r, stg, cmd, pd)
            log = pd.log()
            ntx = max([int(x) for (_, nm, x) in log if nm == "exec.start"] + [0])
            edits = pd.ref_edits()
            pd.remove()
        if not edits or ntx == 0:
            continue
        updates = [e for e in edits if e[0] == "update"]
        deletes = [e for e in edits if e[0] == "delete"]
        order = updates + deletes
        for j in range(0, len(order) + 1):
            with repo.Scratch("c04e") as r:
                proto.setup_case(r, stg, setup)
                pd = rigs.PointDir(r)
                r.tick = 2000000000
                rigs.run_with_point(r, stg, cmd, pd, "crit.before_edit:%d:kill" % ntx)
                pd.remove()
                pre_tree = r.rev("HEAD^{tree}")
                old_head = r.rev("refs/heads/main")
                for e in order[:j]:
                    if e[0] == "update":
                        r.git(["update-ref", e[1], e[2]])
                    else:
                        r.git(["update-ref", "-d", e[1]])
                # the raw crash state itself: the state ref designates either the old or the new
                # state, and once it designates the new one every patch of that state already has
                # its ref (patch refs are updated BEFORE the state ref, deletions come last); the
                # branch never moves before the state ref
                raw = []
                new_state = next((e[2] for e in order if e[0] == "update" and e[1] == "refs/stacks/main"), None)
                new_head = next((e[2] for e in order if e[0] == "update" and e[1] == "refs/heads/main"), None)
                cur_state = r.rev("refs/stacks/main")
                if new_state and cur_state == new_state:
                    sj = proto.stack_json_of(r, new_state) or {}
                    for pn, pv in (sj.get("patches") or {}).items():
                        if r.rev("refs/patches/main/" + pn) != pv["oid"]:
                            raw.append("state ref already designates the new state but refs/patches/main/%s does not "
                                       "point at the commit it records" % pn)
                if new_head and new_state and new_head != old_head and r.rev("refs/heads/main") == new_head \
                        and cur_state != new_state:
                    raw.append("the branch moved before the state ref")
                rec = proto.recover(r, stg)
                n += 1
                ok = rec["fsck_ok"] and rec["series_exit"] == 0 and rec["repair_exit"] == 0 \
                    and rec["reset_exit"] == 0 and rec["stack_ok"]
                if not ok or raw:
                    failures.append({"case": name, "setup": setup, "cmd": cmd, "prefix": j, "raw_state_problems": raw,
                                     "ordered_edits": [" ".join(e[:3]) for e in order], "recovery": rec})
    return n, failures


BRANCH_CRASH_CASES = [
    ("rename", ["branch", "--rename", "work", "moved"]),
    ("clone", ["branch", "--clone", "copy"]),
    ("create", ["branch", "--create", "fresh"]),
    ("delete-other", ["branch", "--delete", "--force", "side"]),
    ("cleanup-other", ["branch", "--cleanup", "--force", "side"]),
]


def branch_crash_probes(ctx, stg):
    """`stg branch` sub-commands write refs outside any transaction, some of them through an external
    `git branch`: the process is killed just before and just after every git invocation of the
    command; afterwards every patch of every stack that existed (and was not being deleted) is
    still a patch of an existing branch whose stack opens, and `stg repair` works there"""
    failures = []
    n = 0

    def build(r):
        r.init_repo()
        r.stg(stg, ["init"])
        for b, k in (("side", 2), ("work", 3)):
            r.git(["checkout", "-q", "-b", b, "main"])
            r.stg(stg, ["init"])
            for i in range(k):
                r.stg(stg, ["new", "-m", "%s %d" % (b, i), "%s%d" % (b[0], i)])
                r.write("%s-%d.txt" % (b, i), "%d\n" % i)
                r.git(["add", "-A"])
                r.stg(stg, ["refresh"])
            if b == "work":
                r.stg(stg, ["pop"])

    def stacks(r):
        out = {}
        for line in r.git(["for-each-ref", "--format=%(refname)", "refs/heads/"]).stdout.split():
            b = line[len("refs/heads/"):]
            p = r.stg(stg, ["series", "--noprefix", "-a", "--branch", b])
            out[b] = (p.returncode, p.stdout.split())
        return out

    for cname, argv in BRANCH_CRASH_CASES:
        with repo.Scratch("c04b") as r:
            build(r)
            shim = rigs.GitShim(r)
            p = r.stg(stg, argv, env=shim.env())
            ncalls = len(shim.calls())
            shim.remove()
        for k in range(1, ncalls + 1):
            for mode in ("before", "after"):
                with repo.Scratch("c04b") as r:
                    build(r)
                    want = {b: set(v[1]) for b, v in stacks(r).items()}
                    shim = rigs.GitShim(r)
                    env = shim.env(kill_before=k) if mode == "before" else shim.env(kill_after=k)
                    p = r.stg(stg, argv, env=env)
                    shim.remove()
                    n += 1
                    for lock in [os.path.join(dp, f) for dp, _, fs in os.walk(os.path.join(r.path, ".git")) for f in fs
                                 if f.endswith(".lock")]:
                        os.remove(lock)               # a killed git leaves its lock file: the user removes it
                    have = stacks(r)
                    probs = []
                    survivors = set()
                    for b, (rc, names) in have.items():
                        survivors |= set(names)
                    for b, names in want.items():
                        if cname.endswith("-other") and b == "side":
                            continue                  # the branch being deleted / cleaned up may lose its stack
                        if not names <= survivors:
                            probs.append("patches %r of branch %r are patches of no existing branch any more"
                                         % (sorted(names - survivors), b))
                    cur = r.git(["symbolic-ref", "-q", "--short", "HEAD"], check=False).stdout.strip()
                    if cur:
                        rc_series = r.stg(stg, ["series"]).returncode
                        if rc_series != 0:
                            probs.append("stg series fails on the current branch %r" % cur)
                        if have.get(cur, (1, []))[1]:
                            rp = r.stg(stg, ["repair"])
                            if rp.returncode != 0:
                                probs.append("stg repair fails on %r: %s" % (cur, rp.stderr.strip()[-120:]))
                    if probs:
                        failures.append({"case": "branch-" + cname, "cmd": argv, "kill": "%s git invocation %d" % (mode, k),
                                         "exit": p.returncode, "problems": probs})
    return n, failures


def run_c04(ctx):
    stg, driver, upath, results, broken, disagreements = base_run(ctx, ["crash"])
    had = False
    for r in results:
        for rec in r["records"]:
            rc = rec.get("recovery") or {}
            ok = rc.get("fsck_ok") and rc.get("series_exit") == 0 and rc.get("repair_exit") == 0 \
                and rc.get("reset_exit") == 0 and rc.get("stack_ok") and not rc.get("stale_locks")
            if not ok:
                had = True
                common.violation(ctx, replay_doc(r, rec, "crash state not recoverable: %r" % (rc,)),
                                 found_input=True, hint="oracle-")
    names = ["pop", "delete", "rename", "refresh", "new-first", "commit"] if ctx.quick() else [c[0] for c in proto.CASES]
    n, failures = edit_prefix_crashes(ctx, stg, driver, upath, [case_by_name(x) for x in names])
    ctx.coverage["ref_edit_prefix_crashes"] = n
    ctx.coverage["evaluations"] += n
    for f in failures:
        had = True
        common.violation(ctx, {"obligation": "direct-oracle:C04:ref-edit-prefix", **f}, found_input=True,
                         hint="prefix-")
    nb, fb = branch_crash_probes(ctx, stg)
    ctx.coverage["branch_admin_crashes"] = nb
    ctx.coverage["evaluations"] += nb
    for f in fb[:4]:
        had = True
        common.violation(ctx, {"obligation": "direct-oracle:C04:branch-admin-crash", **f}, found_input=True, hint="branch-")
    ctx.assumptions += [
        "crash points are program points and prefixes of the ordered single-ref operations; SIGKILL inside one "
        "gix lock-file rename / inside a git subprocess (stale *.lock files, partially written objects) is runtime "
        "behaviour the model cannot exhibit (partial)",
    ]
    finish_run(ctx, broken, disagreements, had)


# ----------------------------------------------------------------------------- C19

def group_interrupt_probes(stg):
    """one Ctrl-C reaches the whole foreground process group: stg AND the git child it is running.  With
    stgit.gpgsign the stack state commit is written by `git commit-tree -S` INSIDE the critical section;
    the interrupt is delivered at every git invocation of pop / push / goto and the child dies of it.
    Afterwards branch ref, stack head, index and work tree all show the old state (and stg reported a
    failure) or all show the new one."""
    fails = []
    n = 0
    setup = [["new", "-m", "a", "a"], ["!write", "f.txt", "1\n"], ["refresh"], ["new", "-m", "b", "b"],
             ["!write", "g.txt", "2\n"], ["refresh"]]

    def prepare(r):
        proto.setup_case(r, stg, setup)
        gpg = os.path.join(r.home, "fakegpg")
        with open(gpg, "w") as f:
            f.write("#!/bin/sh\ncat >/dev/null\nprintf 'fake\\n[GNUPG:] SIG_CREATED D 1 8 00 0 FAKE\\n' >&2\n"
                    "printf -- '-----BEGIN PGP SIGNATURE-----\\n\\nfake\\n-----END PGP SIGNATURE-----\\n'\n")
        os.chmod(gpg, 0o755)
        r.git(["config", "gpg.program", gpg])
        r.git(["config", "stgit.gpgsign", "true"])

    def state(r):
        head = r.rev("HEAD")
        sj = proto.stack_json_of(r, r.rev("refs/stacks/main")) or {}
        return {"head": head, "stack_head": sj.get("head"), "applied": sj.get("applied"),
                "index": r.git(["write-tree"], check=False).stdout.strip(), "head_tree": r.rev("HEAD^{tree}"),
                "status": r.git(["status", "--porcelain"]).stdout.strip()}

    for cmd in (["pop"], ["goto", "a"], ["pop", "-a"]):
        with repo.Scratch("c19g") as r:
            prepare(r)
            shim = rigs.GitShim(r)
            r.stg(stg, cmd, env=shim.env())
            ncalls = len(shim.calls())
            shim.remove()
        for k in range(1, ncalls + 1):
            with repo.Scratch("c19g") as r:
                prepare(r)
                before = state(r)
                shim = rigs.GitShim(r)
                p = r.stg(stg, cmd, env=shim.env(int_group=k))
                shim.remove()
                n += 1
                after = state(r)
                probs = []
                if after["head"] != after["stack_head"]:
                    probs.append("branch head and recorded stack head differ")
                if after["index"] != after["head_tree"] or after["status"]:
                    probs.append("index / work tree do not show the tree of the branch head (status %r)" % after["status"])
                moved = after["head"] != before["head"] or after["applied"] != before["applied"]
                if p.returncode == 0 and not moved:
                    probs.append("exit status 0 although nothing was published")
                if "rolled back" in p.stderr and moved:
                    probs.append("reports a roll-back although the new state was published")
                if probs:
                    fails.append({"case": "group-interrupt", "cmd": cmd, "point": "git invocation %d" % k,
                                  "exit": p.returncode, "problems": probs, "stderr": p.stderr[-200:]})
    return n, fails


def run_c19(ctx):
    stg, driver, upath, results, broken, disagreements = base_run(ctx, ["sigint"])
    had = False
    for r in results:
        for rec in r["records"]:
            bad = None
            if rec["exit"] != 130:
                bad = "exit status %r after one SIGINT" % rec["exit"]
            elif rec["point"] in CRITICAL or rec["point"] == "exec.after_crit":
                if not rec["refs_final"]:
                    bad = "interrupt during publication: refs are not those of the completed command"
                elif not rec["tree_final"]:
                    bad = "interrupt during publication: index/work tree are not those of the completed command"
            elif POINT_INDEX[rec["point"]] <= 5:
                if not (rec["refs_unchanged"] or rec["ext_only"]):
                    bad = "interrupt before publication changed refs"
            if rec["rolled_back_msg"] and not rec["refs_unchanged"] and not rec["ext_only"]:
                bad = "reports a roll-back although the new state was recorded"
            if bad:
                had = True
                common.violation(ctx, replay_doc(r, rec, bad), found_input=True, hint="oracle-")
    ng, fg = group_interrupt_probes(stg)
    ctx.coverage["group_interrupts"] = ng
    ctx.coverage["evaluations"] += ng
    for f in fg[:3]:
        had = True
        common.violation(ctx, {"obligation": "direct-oracle:C19:group-interrupt", **f}, found_input=True, hint="group-")
    ctx.assumptions += ["signal delivery below phase granularity (inside one system call) is runtime behaviour "
                        "the model cannot exhibit (partial)"]
    finish_run(ctx, broken, disagreements, had)


# ----------------------------------------------------------------------------- C11

PAIRS = [
    # a pop-like command (its check-out moves the work tree BACK) racing a `new`: when it loses
    # the compare-and-swap its rollback has real work to do
    ("pop/new", [["new", "-m", "a", "a"], ["!write", "f.txt", "1\n"], ["refresh"], ["new", "-m", "b", "b"],
                 ["!write", "g.txt", "2\n"], ["refresh"]], ["pop"], ["new", "-m", "two", "n2"],
     lambda names: (False, "n2" in names)),
    ("new/new", [["new", "-m", "a", "a"]], ["new", "-m", "one", "n1"], ["new", "-m", "two", "n2"],
     lambda names: ("n1" in names, "n2" in names)),
    ("rename/new", [["new", "-m", "a", "a"]], ["rename", "a", "z"], ["new", "-m", "two", "n2"],
     lambda names: ("z" in names and "a" not in names, "n2" in names)),
    ("hide/new", [["new", "-m", "a", "a"], ["new", "-m", "b", "b"], ["pop"]], ["hide", "b"], ["new", "-m", "two", "n2"],
     lambda names: ("hidden:b" in names, "n2" in names)),
]
PHASE_AFTER = ["stack.loaded", "crit.prev_read", None]     # where a process waits after L, R, P


class Proc:
    def __init__(self, scratch, stg, argv, tag):
        self.pd = rigs.PointDir(scratch, tag)
        self.scratch, self.stg, self.argv = scratch, stg, argv
        self.p = None
        self.done = 0
        self.rc = None
        self.err = ""

    def step(self):
        """take the next phase"""
        if self.rc is not None:
            return
        if self.done == 0:
            env = self.scratch.env({"STGIT_VERIF_DIR": self.pd.path,
                                    "STGIT_VERIF_POINT": "stack.loaded:1:pause,crit.prev_read:1:pause"})
            self.p = subprocess.Popen([self.stg] + self.argv, cwd=self.scratch.path, env=env,
                                      stdout=subprocess.PIPE, stderr=subprocess.PIPE, text=True)
        else:
            rigs.release(self.pd, PHASE_AFTER[self.done - 1])
        wait_for = PHASE_AFTER[self.done]
        self.done += 1
        t0 = time.time()
        while True:
            if self.p.poll() is not None:
                out, err = self.p.communicate()
                self.rc, self.err = self.p.returncode, err
                return
            if wait_for and os.path.exists(os.path.join(self.pd.path, wait_for + ".reached")):
                return
            if time.time() - t0 > 30:
                self.p.kill()
                self.rc, self.err = -999, "timeout"
                return
            time.sleep(0.002)

    def finish(self):
        while self.rc is None:
            self.step()
        self.pd.remove()


def all_schedules():
    out = []
    for combo in itertools.combinations(range(6), 3):
        out.append([i in combo for i in range(6)])       # True = second process
    return out


def extmods_race(stg):
    """the other publication path: on a branch moved by plain git every command first records an
    "external modifications" entry (Stack::log_external_mods), outside the closing reference
    transaction.  Process A is held between reading refs/stacks/<b> and publishing that entry
    while process B runs to completion: A must then fail without effect, or both effects must be in
    the stack; the log stays one chain that contains B's state."""
    fails = []
    n = 0
    for cmd_a, cmd_b, name_a, name_b in ((["new", "-m", "one", "n1"], ["new", "-m", "two", "n2"], "n1", "n2"),
                                         (["rename", "a", "z"], ["new", "-m", "two", "n2"], "z", "n2"),
                                         (["new", "-m", "one", "n1"], ["hide", "a"], "n1", "hidden:a")):
        with repo.Scratch("c11x") as r:
            proto.setup_case(r, stg, [["new", "-m", "a", "a"], ["!write", "f.txt", "1\n"], ["refresh"], ["pop"],
                                      ["!write", "hot.txt", "fix\n"], ["!git", "commit", "-q", "-m", "plain git commit"]])
            pd = rigs.PointDir(r, "xa")
            pa, reached = rigs.start_paused(r, stg, cmd_a, pd, "extmods.prev_read")
            if not reached:
                rigs.finish(pa)
                fails.append({"why": "process A never reached extmods.prev_read (harness)", "cmd1": cmd_a})
                continue
            pb = r.stg(stg, cmd_b)
            b_state = r.rev("refs/stacks/main")
            rigs.release(pd, "extmods.prev_read")
            rc_a, out_a, err_a = rigs.finish(pa)
            pd.remove()
            n += 1
            names = r.stg(stg, ["series", "--noprefix", "-a"]).stdout.split()
            names += ["hidden:" + h for h in r.stg(stg, ["series", "--noprefix", "-H"]).stdout.split()]
            chain, so = [], r.rev("refs/stacks/main")
            while so and len(chain) < 30:
                chain.append(so)
                sj = proto.stack_json_of(r, so)
                so = sj.get("prev") if sj else None
            rec = {"pair": "extmods-race", "cmd1": cmd_a, "cmd2": cmd_b, "exit1": rc_a, "exit2": pb.returncode,
                   "names": names, "stderr1": err_a[-200:]}
            ea, eb = name_a in names, name_b in names
            if rc_a == 0 and pb.returncode == 0 and not (ea and eb):
                fails.append({**rec, "why": "both commands succeeded but the stack has the effect of only one (lost update)"})
            elif rc_a != 0 and ea:
                fails.append({**rec, "why": "the command that failed left its effect in the stack"})
            elif pb.returncode == 0 and b_state not in chain:
                fails.append({**rec, "why": "the state published by the other command is not in the log any more"})
            elif rc_a != 0 and r.git(["status", "--porcelain"]).stdout.strip():
                fails.append({**rec, "why": "the command that failed left index / work tree changed"})
    return n, fails


def run_c11(ctx):
    stg = common.build_stg()
    broken = gate.coq_gate(ctx)
    driver = common.build_driver()
    upath = funcorr.unicode_dump(stg)
    known_ids = {k["id"]: k for k in histcheck.load_known("C11")}
    n = 0
    disagreements, lost = [], []
    samples = []
    pairs = PAIRS[:2] if ctx.quick() else PAIRS
    for (pname, setup, cmd1, cmd2, effects) in pairs:
        for sched in all_schedules():
            with repo.Scratch("c11") as r:
                proto.setup_case(r, stg, setup)
                v0 = r.rev("refs/stacks/main")
                p1, p2 = Proc(r, stg, cmd1, "p1"), Proc(r, stg, cmd2, "p2")
                for b in sched:
                    (p2 if b else p1).step()
                p1.finish()
                p2.finish()
                status_after = r.git(["status", "--porcelain"]).stdout.strip()
                head_tree_after = r.rev("HEAD^{tree}")
                index_tree_after = r.git(["write-tree"], check=False).stdout.strip()
                unapplied_after = r.stg(stg, ["series", "--noprefix", "-U"]).stdout.split()
                names = r.stg(stg, ["series", "--noprefix", "-a"]).stdout.split()
                hidden = r.stg(stg, ["series", "--noprefix", "-H"]).stdout.split()
                names += ["hidden:" + h for h in hidden]
                final = r.rev("refs/stacks/main")
                # log linear: walk prev chain
                chain = []
                so = final
                while so and len(chain) < 20:
                    chain.append(so)
                    sj = proto.stack_json_of(r, so)
                    so = sj.get("prev") if sj else None
                e1, e2 = effects(names)
            if pname == "pop/new":
                e1 = "b" in unapplied_after
            n += 1
            pred = funcorr.run_model(driver, upath, [["sched", "0", "11", "12", "10",
                                                       "".join("1" if b else "0" for b in sched)]])[0]
            kv = dict(x.split("=") for x in pred.split())
            obs_p1_failed = p1.rc != 0
            obs_p2_failed = p2.rc != 0
            agree = (kv["p1failed"] == "1") == obs_p1_failed and (kv["p2failed"] == "1") == obs_p2_failed
            rec = {"pair": pname, "setup": setup, "cmd1": cmd1, "cmd2": cmd2,
                   "schedule": "".join("2" if b else "1" for b in sched), "exit1": p1.rc, "exit2": p2.rc,
                   "effect1": e1, "effect2": e2, "model": pred, "log_len": len(chain)}
            if len(samples) < 3:
                samples.append(rec)
            if not agree:
                disagreements.append(rec)
            rec["model_predicts_both_succeed"] = kv["p1failed"] == "0" and kv["p2failed"] == "0"
            if p1.rc == 0 and p2.rc == 0 and not (e1 and e2):
                lost.append(rec)
            if (p1.rc != 0 and e1) or (p2.rc != 0 and e2):
                rec2 = dict(rec)
                rec2["why"] = "a command failed but its effect is in the stack"
                lost.append(rec2)
            if (p1.rc != 0 or p2.rc != 0) and (status_after or index_tree_after != head_tree_after):
                # whoever lost must have rolled back: index and work tree are those of the head
                rec3 = dict(rec)
                rec3["why"] = "a command that lost the compare-and-swap left index / work tree changed: %r" % status_after
                lost.append(rec3)
    ctx.obligations += 1
    if not disagreements:
        ctx.discharged += 1
    seen = False
    for rec in lost:
        # F9 is the window the model of the CURRENT compare-and-swap has (the expected value is
        # re-read inside the critical section): a lost update in a schedule where that
        # compare-and-swap must detect the other process is a different violation
        if "F9" in known_ids and "why" not in rec and rec["model_predicts_both_succeed"]:
            if not seen:
                seen = True
                ctx.known.append("F9: %s" % known_ids["F9"]["what"])
        else:
            common.violation(ctx, {"obligation": "direct-oracle:C11", "why": rec.get("why", "lost update"), **rec},
                             found_input=True, hint="oracle-")
    nx, fx = extmods_race(stg)
    n += nx
    ctx.obligations += 1
    if not fx:
        ctx.discharged += 1
    for rec in fx[:3]:
        common.violation(ctx, {"obligation": "direct-oracle:C11:extmods-race", **rec}, found_input=True, hint="race-")
    for rec in disagreements[:3]:
        if not ctx.violations:
            common.violation(ctx, {"obligation": "correspondence:C11:schedule", **rec}, found_input=False, hint="corr-")
    ctx.coverage["extmods_race_runs"] = nx
    ctx.coverage.update({
        "evaluations": n, "distinct_nontrivial": len(all_schedules()) * len(pairs),
        "rule": "all 20 interleavings of the phases (stack loaded / previous state read / refs published) of two "
                "commands, for %d command pairs; realised with pause points" % len(pairs),
        "samples": samples, "traces_validated_against_impl": n, "exhaustive": True,
        "lost_updates_observed": len(lost), "model_impl_disagreements": len(disagreements)})
    ctx.assumptions += ["lock acquisition races inside gix (two processes inside edit_references at once) are "
                        "runtime behaviour; the model treats the publication as atomic w.r.t. the compare-and-swap "
                        "(partial)"]
    if broken and not ctx.violations:
        common.violation(ctx, {"obligation": "Properties/C11.v", "broken": broken}, found_input=False, hint="proof-")
