"""History-level correspondence: run one scenario on the real stg (in a scratch repository)
and on the extracted Coq model, snapshot both after every command, canonicalise (first-seen
numbering of object ids, so that only the structure is compared) and diff.

Cells: the work tree is NFILES_MULTI files of REGIONS regions each (always present, values
>= 1) followed by NFILES_SINGLE one-cell files (0 = file absent)."""

import json
import os
import re
import subprocess

from . import common, repo
from .funcorr import hx, unhx, hxlist

NFILES_MULTI = 3
REGIONS = 3
NFILES_SINGLE = 3
NCELLS = NFILES_MULTI * REGIONS + NFILES_SINGLE
PAD = 5
INITIAL_CELLS = [1] * (NFILES_MULTI * REGIONS) + [0] * NFILES_SINGLE


# ----------------------------------------------------------------------------- rendering

def render_files(cells):
    """cells -> {path: content or None (absent)}"""
    files = {}
    for f in range(NFILES_MULTI):
        lines = []
        for r in range(REGIONS):
            v = cells[f * REGIONS + r]
            lines.append("f%dr%d=%d" % (f, r, v))
            for k in range(PAD):
                lines.append("pad")
        files["f%d.txt" % f] = "\n".join(lines) + "\n"
    for s in range(NFILES_SINGLE):
        v = cells[NFILES_MULTI * REGIONS + s]
        files["s%d.txt" % s] = None if v == 0 else "s%d=%d\n" % (s, v)
    return files


CELL_RE = re.compile(r"^f(\d+)r(\d+)=(\d+)$")
SINGLE_RE = re.compile(r"^s(\d+)=(\d+)$")


def parse_files(files):
    """{path: text} -> cells (or None when the content is not a clean rendering, e.g.
    conflict markers)"""
    cells = [0] * NCELLS
    ok = True
    for path, text in files.items():
        m = re.match(r"^f(\d+)\.txt$", path)
        if m:
            seen = 0
            for line in text.split("\n"):
                mm = CELL_RE.match(line)
                if mm:
                    cells[int(mm.group(1)) * REGIONS + int(mm.group(2))] = int(mm.group(3))
                    seen += 1
                elif line not in ("pad", ""):
                    ok = False
            if seen != REGIONS:
                ok = False
            continue
        m = re.match(r"^s(\d+)\.txt$", path)
        if m:
            mm = SINGLE_RE.match(text.strip())
            if mm:
                cells[NFILES_MULTI * REGIONS + int(mm.group(1))] = int(mm.group(2))
            else:
                ok = False
            continue
        if path != "base.txt":
            ok = False
    return cells if ok else None


# ----------------------------------------------------------------------------- abstract commands

def model_fields(c):
    """abstract command dict -> request fields for the model driver"""
    k = c["c"]
    fl = ",".join(c.get("flags", [])) or "-"
    rng = lambda key: hxlist(c[key]) if c.get(key) is not None else "_"
    num = lambda key: str(c[key]) if c.get(key) is not None else "_"
    conf = c.get("conflicts") or "_"
    if k == "init":
        return ["init"]
    if k == "new":
        return ["new", hx(c["name"]), str(c["meta"])]
    if k == "refresh":
        return ["refresh", hx(c["patch"]) if c.get("patch") is not None else "_"]
    if k in ("spill", "repair", "logclear", "inspect"):
        return [k]
    if k == "push":
        return ["push", rng("ranges"), num("n"), fl, conf]
    if k == "pop":
        return ["pop", rng("ranges"), num("n"), fl]
    if k == "goto":
        return ["goto", hx(c["loc"]), fl, conf]
    if k == "float":
        return ["float", hxlist(c["ranges"]), fl]
    if k == "sink":
        t = "_"
        if c.get("target") is not None:
            t = ("a:" if c["above"] else "b:") + hx(c["target"])
        return ["sink", rng("ranges"), t, fl]
    if k == "delete":
        return ["delete", rng("ranges"), fl, conf]
    if k in ("hide", "unhide"):
        return [k, hxlist(c["ranges"])]
    if k == "rename":
        return ["rename", hx(c["old"]) if c.get("old") is not None else "_", hx(c["new"])]
    if k == "commit":
        return ["commit", rng("ranges"), num("n"), fl]
    if k == "uncommit":
        return ["uncommit", num("n"), hxlist(c["names"])]
    if k == "clean":
        return ["clean", fl]
    if k == "undo":
        return ["undo", str(c.get("n", 1)), fl]
    if k == "redo":
        return ["redo", str(c.get("n", 1)), fl]
    if k == "reset":
        return ["reset", num("entry"), rng("ranges"), fl]
    if k == "gedit":
        return ["gedit", str(c["cell"]), str(c["v"])]
    if k == "gcommit":
        return ["gcommit", str(c["meta"]), hx(c["subj"])]
    if k == "gamend":
        return ["gamend", str(c["meta"]), hx(c["subj"])]
    if k == "gmerge":
        return ["gmerge", str(c["meta"])]
    if k == "gconfig":
        return ["gconfig", "1" if c["apc"] else "0"]
    if k == "greset":
        return ["greset", c["kind"], hx(c["arg"]) if c["kind"] == "patch" else str(c["arg"])]
    if k == "edit":
        return ["edit", hx(c["loc"]) if c.get("loc") is not None else "_", str(c["meta"])]
    if k == "rebase":
        return ["rebase", c["kind"], hx(c["arg"]) if c["kind"] == "patch" else str(c["arg"])]
    if k == "squash":
        return ["squash", hxlist(c["ranges"]), hx(c["name"]), str(c["meta"])]
    if k == "pick":
        return ["pick", c["kind"], hx(c["arg"]) if c["kind"] == "patch" else str(c["arg"]),
                hx(c["name"]) if c.get("name") is not None else "_", fl]
    raise ValueError(k)


def esc(name):
    return "\\" + name if name.startswith("-") else name


def stg_argv(c):
    """abstract command dict -> argv for the real stg (None for git-level ops)"""
    k = c["c"]
    fl = ["--" + f for f in c.get("flags", [])]
    conf = ["--conflicts=" + c["conflicts"]] if c.get("conflicts") else []
    rr = lambda key: (["--"] + [esc(x) for x in c[key]]) if c.get(key) else []
    if k == "init":
        return ["init"]
    if k == "new":
        return ["new", "-m", "x%d msg" % c["meta"], esc(c["name"])]
    if k == "refresh" and c.get("patch") is not None:
        return ["refresh", "-p", esc(c["patch"])]
    if k in ("refresh", "spill", "repair"):
        return [k]
    if k == "logclear":
        return ["log", "--clear"]
    if k == "inspect":
        return c.get("argv", ["series"])
    if k == "push":
        return ["push"] + fl + conf + (["-n", str(c["n"])] if c.get("n") is not None else []) + rr("ranges")
    if k == "pop":
        return ["pop"] + fl + (["-n", str(c["n"])] if c.get("n") is not None else []) + rr("ranges")
    if k == "goto":
        return ["goto"] + fl + conf + ["--", esc(c["loc"])]
    if k == "float":
        return ["float"] + fl + rr("ranges")
    if k == "sink":
        t = []
        if c.get("target") is not None:
            t = ["--above" if c["above"] else "--to", esc(c["target"])]
            if c["target"].startswith("-"):
                t = [("--above=" if c["above"] else "--to=") + esc(c["target"])]
        return ["sink"] + fl + t + rr("ranges")
    if k == "delete":
        return ["delete"] + fl + conf + rr("ranges")
    if k in ("hide", "unhide"):
        return [k] + rr("ranges")
    if k == "rename":
        return ["rename", "--"] + ([esc(c["old"])] if c.get("old") is not None else []) + [esc(c["new"])]
    if k == "commit":
        return ["commit"] + fl + (["-n", str(c["n"])] if c.get("n") is not None else []) + rr("ranges")
    if k == "uncommit":
        return ["uncommit"] + (["-n", str(c["n"])] if c.get("n") is not None else []) + ["--"] + [esc(x) for x in c["names"]]
    if k == "clean":
        return ["clean"] + fl
    if k == "undo":
        return ["undo"] + fl + (["-n", str(c["n"])] if "n" in c else [])
    if k == "redo":
        return ["redo"] + fl + (["-n", str(c["n"])] if "n" in c else [])
    if k == "edit":
        return ["edit", "-m", "x%d edited" % c["meta"]] + (["--", esc(c["loc"])] if c.get("loc") is not None else [])
    if k == "rebase":
        if c["kind"] == "patch":
            return ["rebase", "--", esc(c["arg"])]
        return ["rebase", "--", ("{base}~%d" if c["kind"] == "base" else "HEAD~%d") % c["arg"]]
    if k == "squash":
        return ["squash", "-m", "x%d squashed" % c["meta"], "-n", esc(c["name"]), "--"] + [esc(x) for x in c["ranges"]]
    if k == "pick":
        src = esc(c["arg"]) if c["kind"] == "patch" else (("{base}~%d" if c["kind"] == "base" else "HEAD~%d") % c["arg"])
        return ["pick"] + fl + (["--name", esc(c["name"])] if c.get("name") is not None else []) + ["--", src]
    if k == "reset":
        a = ["reset"] + fl
        if c.get("entry") is not None:
            a += ["refs/stacks/main" + ("~%d" % c["entry"] if c["entry"] else "")]
        return a + ([esc(x) for x in c["ranges"]] if c.get("ranges") else [])
    return None


# ----------------------------------------------------------------------------- real side

class RealRepo:
    """Scratch repository + object access with one persistent `git cat-file --batch`."""

    def __init__(self, scratch, stg):
        self.r = scratch
        self.stg = stg
        self.cat = None
        self.cache = {}
        self.tree_cache = {}
        self.cells = list(INITIAL_CELLS)

    def start(self):
        r = self.r
        r.git(["init", "-q", "-b", "main"])
        for k, v in (("user.name", "C O Mitter"), ("user.email", "committer@example.com"),
                     ("core.autocrlf", "false"), ("commit.gpgsign", "false"), ("gc.auto", "0")):
            r.git(["config", k, v])
        self.write_cells(self.cells)
        r.git(["add", "-A"])
        r.git(["commit", "-q", "-m", "x0 base"])

    def close(self):
        if self.cat:
            self.cat.stdin.close()
            self.cat.wait()
            self.cat = None

    def write_cells(self, cells):
        for path, content in render_files(cells).items():
            full = os.path.join(self.r.path, path)
            if content is None:
                if os.path.exists(full):
                    os.remove(full)
            else:
                with open(full, "w") as f:
                    f.write(content)

    def _cat(self, oid):
        if self.cat is None:
            self.cat = subprocess.Popen(["git", "cat-file", "--batch"], cwd=self.r.path,
                                        stdin=subprocess.PIPE, stdout=subprocess.PIPE, env=self.r.env())
        self.cat.stdin.write((oid + "\n").encode())
        self.cat.stdin.flush()
        head = self.cat.stdout.readline().decode().split()
        if len(head) < 3:
            return None, None
        size = int(head[2])
        data = self.cat.stdout.read(size)
        self.cat.stdout.read(1)
        return head[1], data

    def tree_cells(self, tree_id):
        if tree_id in self.tree_cache:
            return self.tree_cache[tree_id]
        kind, data = self._cat(tree_id)
        files = {}
        i = 0
        while data and i < len(data):
            sp = data.index(b" ", i)
            nul = data.index(b"\0", sp)
            mode = data[i:sp]
            name = data[sp + 1:nul].decode("utf-8", "replace")
            oid = data[nul + 1:nul + 21].hex()
            i = nul + 21
            if mode == b"40000":
                files[name] = ("tree", oid)
            else:
                files[name] = ("blob", oid)
        res = {"files": files}
        self.tree_cache[tree_id] = res
        return res

    def commit_info(self, oid):
        """-> dict(parents, tree cells or None, meta, state or None, msg)"""
        if oid in self.cache:
            return self.cache[oid]
        kind, data = self._cat(oid)
        if kind != "commit":
            info = {"missing": True, "parents": [], "tree": None, "meta": 0, "state": None, "msg": ""}
            self.cache[oid] = info
            return info
        text = data.decode("utf-8", "replace")
        headers, _, msg = text.partition("\n\n")
        parents, tree = [], None
        for line in headers.split("\n"):
            if line.startswith("parent "):
                parents.append(line[7:])
            elif line.startswith("tree "):
                tree = line[5:]
        t = self.tree_cells(tree)
        state = None
        cells = None
        if "stack.json" in t["files"]:
            _, sj = self._cat(t["files"]["stack.json"][1])
            state = json.loads(sj.decode())
        else:
            files = {}
            for name, (k, boid) in t["files"].items():
                if k == "blob":
                    _, b = self._cat(boid)
                    files[name] = b.decode("utf-8", "replace")
            cells = parse_files(files)
        m = re.search(r"(?m)^x(\d+)\b", msg)     # the identity tag: first line, or a body line
        info = {"parents": parents, "tree": cells, "meta": int(m.group(1)) if m else 0, "state": state,
                "msg": msg}
        self.cache[oid] = info
        return info

    def run(self, c):
        """execute one abstract command; returns (exit class, stderr)"""
        k = c["c"]
        r = self.r
        if k == "gedit":
            self.cells = self.worktree_cells() or self.cells
            self.cells[c["cell"]] = c["v"]
            self.write_cells(self.cells)
            r.git(["add", "-A"])
            return 0, ""
        if k == "gcommit":
            p = r.git(["commit", "-q", "--allow-empty", "-a", "-m", c["subj"]], check=False)
            return (0 if p.returncode == 0 else 2), p.stderr
        if k == "gamend":
            p = r.git(["commit", "-q", "--allow-empty", "--amend", "-a", "-m", c["subj"]], check=False)
            return (0 if p.returncode == 0 else 2), p.stderr
        if k == "gmerge":
            head = r.rev("HEAD")
            par = r.rev("HEAD~1")
            if not par:
                return 2, "no parent"
            tree = r.rev("HEAD^{tree}")
            p = r.git(["commit-tree", tree, "-p", head, "-p", par, "-m", "x%d merge" % c["meta"]])
            r.git(["reset", "-q", "--hard", p.stdout.strip()])
            return 0, ""
        if k == "gconfig":
            r.git(["config", "stgit.push.allow-conflicts", "true" if c["apc"] else "false"])
            return 0, ""
        if k == "greset":
            if c["kind"] == "patch":
                target = r.rev("refs/patches/main/" + c["arg"])
            elif c["kind"] == "base":
                base = self.stack_base()
                target = r.rev("%s~%d" % (base, c["arg"])) if base else None
            else:
                target = r.rev("HEAD~%d" % c["arg"])
            if not target:
                return 2, "no target"
            r.git(["reset", "-q", "--hard", target])
            return 0, ""
        argv = stg_argv(c)
        p = r.stg(self.stg, argv)
        code = p.returncode
        if code in (0, 3) and not r.git(["ls-files", "-u"]).stdout.strip():
            # `git apply --cached --3way` in stg's temporary index checks a file OUT into the work
            # tree when its three-way fallback needs "our" version and the work tree lacks it
            # (DESIGN.md section 10.4, F39): such files are left behind untracked.  The clean model
            # has no untracked files; they are removed here and counted.
            for path in r.git(["ls-files", "--others", "--exclude-standard"]).stdout.split("\n"):
                if re.fullmatch(r"[fs]\d+\.txt", path or ""):
                    os.remove(os.path.join(r.path, path))
                    self.pollution = getattr(self, "pollution", 0) + 1
        if "panicked at" in p.stderr or code == 101:
            return "panic", p.stderr
        if code == -999:
            return "timeout", p.stderr
        if code < 0:
            return "signal:%d" % -code, p.stderr
        return code, p.stderr

    def stack_base(self):
        so = self.r.rev("refs/stacks/main")
        if not so:
            return None
        st = self.commit_info(so)["state"]
        if st["applied"]:
            return self.r.rev(st["patches"][st["applied"][0]]["oid"] + "^")
        return self.r.rev("refs/heads/main")

    def worktree_cells(self):
        files = {}
        for path in os.listdir(self.r.path):
            if path.endswith(".txt"):
                try:
                    files[path] = open(os.path.join(self.r.path, path)).read()
                except Exception:
                    return None
        return parse_files(files)

    def snapshot(self):
        r = self.r
        p = r.git(["for-each-ref", "--format=%(refname) %(objectname)"])
        refs = dict(line.split(" ") for line in p.stdout.split("\n") if line)
        um = r.git(["ls-files", "-u"]).stdout.strip() != ""
        return {
            "branch": refs.get("refs/heads/main"),
            "stack": refs.get("refs/stacks/main"),
            "prefs": {k[len("refs/patches/main/"):]: v for k, v in refs.items()
                      if k.startswith("refs/patches/main/")},
            "other_refs": sorted(k for k in refs if not k.startswith(("refs/patches/main/", "refs/heads/main",
                                                                      "refs/stacks/main"))),
            "wt": self.worktree_cells(),
            "unmerged": um,
        }


class RealGraph:
    def __init__(self, real):
        self.real = real

    def info(self, oid):
        ci = self.real.commit_info(oid)
        st = None
        if ci["state"] is not None:
            s = ci["state"]
            st = {"prev": s.get("prev"), "head": s["head"], "A": s["applied"], "U": s["unapplied"],
                  "H": s["hidden"], "P": {k: v["oid"] for k, v in s["patches"].items()}}
        if st is not None and ci["msg"].strip() == "parent grouping":
            # StackState::commit's grouping commits carry the state TREE (stack.json included) but
            # are not states: the model gives them no state, the canonical shape calls them "group"
            return {"parents": ci["parents"], "tree": None, "meta": 0, "state": None, "kind": "group"}
        return {"parents": ci["parents"], "tree": ci["tree"], "meta": ci["meta"], "state": st}


# ----------------------------------------------------------------------------- model side

def parse_model_dump(text):
    """'exit=.. branch=.. stack=.. wt=.. unmerged=.. prefs=.. objs=...' -> (exit, snapshot, graph)"""
    head, _, objs = text.partition(" objs=")
    kv = dict(item.split("=", 1) for item in head.split(" "))

    def names(h):
        return [] if h == "-" else [unhx(x) for x in h.split(",")]

    def pmap(h):
        if h == "-":
            return {}
        out = {}
        for item in h.split(","):
            k, v = item.split("=")
            out[unhx(k)] = "m" + v
        return out

    graph = {}
    for rec in objs.split("|"):
        if not rec:
            continue
        oid, rest = rec.split(":", 1)
        f = {}
        # fields p,t,m,k,s ; s may contain ':'? (no: names are hex)
        parts = rest.split(":")
        for part in parts:
            key, _, val = part.partition("=")
            f[key] = val
        st = None
        if f.get("s", "-") != "-":
            sd = dict(item.split("=", 1) for item in f["s"].split(";"))
            st = {"prev": None if sd["prev"] == "-" else "m" + sd["prev"], "head": "m" + sd["head"],
                  "A": names(sd["A"]), "U": names(sd["U"]), "H": names(sd["H"]), "P": pmap(sd["P"])}
        graph["m" + oid] = {
            "parents": [] if f["p"] == "-" else ["m" + x for x in f["p"].split(",")],
            "tree": None if (st is not None or f["t"] == "-") else [int(x) for x in f["t"].split(",")],
            "meta": int(f["m"]),
            "state": st,
            "kind": f["k"],
        }
    snap = {
        "branch": "m" + kv["branch"],
        "stack": None if kv["stack"] == "-" else "m" + kv["stack"],
        "prefs": pmap(kv["prefs"]),
        "wt": [int(x) for x in kv["wt"].split(",")] if kv["wt"] != "-" else [],
        "unmerged": kv["unmerged"] == "1",
    }
    ex = kv["exit"]
    return (int(ex) if ex.isdigit() else ex), snap, graph


class ModelGraph:
    def __init__(self):
        self.g = {}

    def info(self, oid):
        return self.g[oid]


# ----------------------------------------------------------------------------- canonicalisation

class Numbering:
    """first-seen numbering of object ids, persistent across the steps of one scenario"""

    def __init__(self):
        self.num = {}

    def of(self, oid):
        if oid is None:
            return None
        if oid not in self.num:
            self.num[oid] = len(self.num)
        return self.num[oid]


def canon(snap, graph, numbering, depth=3):
    """canonical, id-free description of a snapshot.  Objects are numbered in first-seen
    order by a deterministic traversal, so two isomorphic histories give equal results."""
    N = numbering.of
    out = {"branch": N(snap["branch"]), "unmerged": snap["unmerged"]}
    out["wt"] = snap["wt"] if not snap["unmerged"] else "unmerged"
    visit = [snap["branch"]]
    st = None
    if snap["stack"] is not None:
        sinfo = graph.info(snap["stack"])
        st = sinfo["state"]
    if st is None:
        out["stack"] = None
    else:
        out["stack"] = {
            "A": st["A"], "U": st["U"], "H": st["H"],
            "head": N(st["head"]),
            "P": {k: N(st["P"][k]) for k in st["A"] + st["U"] + st["H"] if k in st["P"]},
            "P_keys": sorted(st["P"].keys()),
        }
        visit.append(st["head"])
        visit += [st["P"][k] for k in st["A"] + st["U"] + st["H"] if k in st["P"]]
    out["prefs"] = {k: N(v) for k, v in sorted(snap["prefs"].items())}
    visit += [v for _, v in sorted(snap["prefs"].items())]
    # commits: content of every visited commit, following parents to a bounded depth
    commits = {}
    frontier = [(o, 0) for o in visit if o is not None]
    seen = set()
    while frontier:
        o, d = frontier.pop(0)
        if o in seen:
            continue
        seen.add(o)
        info = graph.info(o)
        if info.get("missing"):
            commits[N(o)] = "MISSING"
            continue
        if info["state"] is not None:
            continue
        commits[N(o)] = {"parents": [N(p) for p in info["parents"]], "tree": info["tree"], "meta": info["meta"]}
        if d < depth:
            for p in info["parents"]:
                frontier.append((p, d + 1))
    out["commits"] = commits
    # the state log: the chain of prev links with each state's lists, and the parent
    # structure of the newest state commit (what keeps patches alive for git gc)
    log = []
    so = snap["stack"]
    k = 0
    while so is not None and k < 6:
        info = graph.info(so)
        s = info["state"]
        if s is None:
            log.append("NOT-A-STATE")
            break
        log.append({"id": N(so), "A": s["A"], "U": s["U"], "H": s["H"], "head": N(s["head"])})
        so = s["prev"]
        k += 1
    out["log"] = log
    if snap["stack"] is not None and st is not None:
        out["state_parents"] = state_parent_shape(snap["stack"], graph, N)
    return out


def state_parent_shape(so, graph, N):
    info = graph.info(so)
    shape = []
    for i, p in enumerate(info["parents"]):
        pi = graph.info(p)
        if i == 0:
            shape.append(("simplified", len(pi["parents"])))
        elif pi["state"] is not None:
            shape.append(("state", N(p)))
        elif pi["tree"] is None and not pi.get("missing") and pi["meta"] == 0 and is_group(pi, graph):
            shape.append(("group", [("c", N(q)) if graph.info(q)["state"] is None else ("state", N(q))
                                    for q in pi["parents"]]))
        else:
            shape.append(("c", N(p)))
    return shape


def is_group(pi, graph):
    return len(pi["parents"]) > 1 and pi["tree"] is None


def diff(a, b, path=""):
    """first difference between two canonical snapshots (or None)"""
    if type(a) != type(b):
        return "%s: %r != %r" % (path, a, b)
    if isinstance(a, dict):
        for k in sorted(set(a) | set(b), key=str):
            if k not in a or k not in b:
                return "%s.%s: only on one side (%r / %r)" % (path, k, a.get(k), b.get(k))
            d = diff(a[k], b[k], path + "." + str(k))
            if d:
                return d
        return None
    if isinstance(a, (list, tuple)):
        if len(a) != len(b):
            return "%s: %r != %r" % (path, a, b)
        for i, (x, y) in enumerate(zip(a, b)):
            d = diff(x, y, "%s[%d]" % (path, i))
            if d:
                return d
        return None
    return None if a == b else "%s: %r != %r" % (path, a, b)


# ----------------------------------------------------------------------------- running

class ModelSession:
    def __init__(self, driver, unicode_path):
        self.p = subprocess.Popen([driver, "--unicode", unicode_path], stdin=subprocess.PIPE,
                                  stdout=subprocess.PIPE, text=True)
        self.n = 0

    def ask(self, fields):
        self.n += 1
        self.p.stdin.write("%d\t%s\n" % (self.n, "\t".join(fields)))
        self.p.stdin.flush()
        line = self.p.stdout.readline().rstrip("\n")
        return line.split("\t", 1)[1] if "\t" in line else line

    def close(self):
        self.p.stdin.close()
        self.p.wait()


def run_scenario(stg, driver, unicode_path, steps, oracles=(), tag="h", keep_going=False, chooser=None,
                 max_steps=None):
    """Runs a scenario on both sides.  `steps` is a fixed list, or None with `chooser`:
    chooser(view, i) -> next abstract command or None, where view is the model's current
    canonical snapshot (lists, cells), so that generated commands are mostly valid.
    Returns dict(steps=[...], mismatch=None or {...}, oracle_failures=[...], exits=[...]).
    `oracles`: callables (real, snap, graph, step_index, cmd, exit, stderr) -> None or
    failure text, evaluated on the REAL side after every step."""
    result = {"steps": [], "mismatch": None, "oracle_failures": [], "exits": []}
    ms = ModelSession(driver, unicode_path)
    with repo.Scratch(tag) as scratch:
        real = RealRepo(scratch, stg)
        try:
            real.start()
            mtext = ms.ask(["world", ",".join(str(c) for c in INITIAL_CELLS)])
            rnum, mnum = Numbering(), Numbering()
            mgraph = ModelGraph()
            rgraph = RealGraph(real)
            mexit, msnap, g = parse_model_dump(mtext)
            mgraph.g = g
            i = 0
            while True:
                if steps is not None:
                    if i >= len(steps):
                        break
                    c = steps[i]
                else:
                    if max_steps is not None and i >= max_steps:
                        break
                    c = chooser(model_view(msnap, mgraph), i)
                    if c is None:
                        break
                result["steps"].append(c)
                rexit, stderr = real.run(c)
                rsnap = real.snapshot()
                mtext = ms.ask(["step"] + model_fields(c))
                if mtext == "BADREQ":
                    result["mismatch"] = {"step": i, "cmd": c, "why": "model rejected the request"}
                    break
                mexit, msnap, g = parse_model_dump(mtext)
                mgraph.g = g
                rc = canon(rsnap, rgraph, rnum)
                mc = canon(msnap, mgraph, mnum)
                rc["exit"] = rexit
                mc["exit"] = mexit
                if c["c"] == "inspect" and rexit in (0, 1, 2):
                    mc["exit"] = rexit      # inspection commands: only the repository is compared
                result["exits"].append(rexit)
                for orc in oracles:
                    f = orc(real, rsnap, rgraph, i, c, rexit, stderr)
                    if f:
                        result["oracle_failures"].append({"step": i, "cmd": c, "why": f, "exit": rexit,
                                                          "stderr": stderr_excerpt(stderr)})
                d = diff(rc, mc)
                if d and "Untracked working tree file" in stderr and "would be overwritten" in stderr:
                    # a refused conflict (--conflicts=disallow / stgit.push.allow-conflicts=false)
                    # whose work-tree merge left a both-added file behind: git's restoring
                    # read-tree refuses to overwrite it (DESIGN.md section 10.4, F36; the clean
                    # model has no untracked files)
                    result["out_of_model"] = {"step": i, "cmd": c, "stderr": stderr[-200:]}
                    break
                if d and "merge-recursive" in stderr and "untracked working tree files would be overwritten" in stderr:
                    # F39 within ONE command: `git apply --3way` in the temporary index (try_squash, the
                    # first attempt of a push) checked a file out into the work tree, and the work-tree
                    # merge that follows refuses to overwrite that now-untracked file: the command halts
                    # where the clean model (no untracked files) merges (DESIGN.md section 10.4)
                    result["out_of_model"] = {"step": i, "cmd": c, "stderr": stderr[-200:]}
                    break
                if d and "merge-recursive" in stderr and "local changes" in stderr:
                    # merge-recursive refusing to touch locally modified files during the
                    # work-tree merge of a push is outside the model (recorded, not compared);
                    # the direct oracles above still judged the real outcome
                    result["out_of_model"] = {"step": i, "cmd": c, "stderr": stderr[-200:]}
                    break
                if d and result["mismatch"] is None:
                    result["mismatch"] = {"step": i, "cmd": c, "diff": d, "impl_exit": rexit,
                                          "model_exit": mexit, "stderr": stderr[-400:]}
                    if not keep_going:
                        break
                i += 1
        finally:
            real.close()
            ms.close()
    return result


def stderr_excerpt(stderr, n=300):
    """the end of stderr, but starting at the panic message when there is one"""
    k = stderr.find("panicked at")
    return stderr[k:k + n] if k >= 0 else stderr[-n:]


def model_view(msnap, mgraph):
    st = None
    if msnap["stack"] is not None:
        st = mgraph.info(msnap["stack"])["state"]
    return {
        "initialized": st is not None,
        "A": list(st["A"]) if st else [], "U": list(st["U"]) if st else [], "H": list(st["H"]) if st else [],
        "wt": list(msnap["wt"]), "unmerged": msnap["unmerged"],
        "branch_tree": mgraph.info(msnap["branch"])["tree"],
        "head_is_top": (st is None) or (st["head"] == msnap["branch"]),
        "log_len": log_len(msnap, mgraph),
        "below_base": below_base(msnap, st, mgraph),
        "deltas": patch_deltas(st, mgraph) if st else {},
    }


def below_base(msnap, st, mgraph):
    """how many commits `stg uncommit` could take: single-parent commits from the base downwards"""
    o = msnap["branch"]
    if st and st["A"]:
        info = mgraph.info(st["P"][st["A"][0]])
        o = info["parents"][0] if info["parents"] else None
    n = 0
    while o is not None and n < 8:
        par = mgraph.info(o)["parents"]
        if len(par) != 1:
            break
        n += 1
        o = par[0]
    return n


def patch_deltas(st, mgraph):
    """per patch: list of (cell, value) its commit changes relative to its parent"""
    out = {}
    for n, oid in st["P"].items():
        info = mgraph.info(oid)
        if not info["parents"] or info["tree"] is None:
            continue
        par = mgraph.info(info["parents"][0])
        if par["tree"] is None:
            continue
        out[n] = [(i, v) for i, (u, v) in enumerate(zip(par["tree"], info["tree"])) if u != v]
    return out


def log_len(msnap, mgraph):
    n, so = 0, msnap["stack"]
    while so is not None and n < 100:
        s = mgraph.info(so)["state"]
        if s is None:
            break
        n += 1
        so = s["prev"]
    return n
