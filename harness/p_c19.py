"""C19: see harness/protocheck.py (run_c19) and Properties/C19.v."""
import json

from . import protocheck

LEVEL = "proof"


def run(ctx):
    protocheck.run_c19(ctx)


def replay(ctx, path):
    doc = json.load(open(path))
    print(json.dumps({k: doc.get(k) for k in ("why", "case", "setup", "cmd", "observer", "point", "nth", "schedule")}, indent=1))
    print("re-run the case with: ./check C19 (the corpus case above is part of every run)")
    return 1
