"""C13 - stg repair reconciles the stack with a branch moved by plain git

Deciding method: Coq theorems (Properties/C13.v) about the stack / command model, tied to
the code by the translator (Gen/*.v) and by history-level differential testing of the
extracted model against the real stg, with direct oracles on the real repository."""

from . import histcheck

LEVEL = "proof"
PROFILES = [('REPAIR', 4), ('BASIC', 0.5)]
ORACLES = ['prev', 'c02', 'c01']


def run(ctx):
    histcheck.run_property(ctx, PROFILES, ORACLES, n_quick=56, n_thorough=800, nsteps=32 if ctx.quick() else 45,
                           own_oracle="c13", with_extras=True)


def replay(ctx, path):
    return histcheck.replay_scenario(ctx, path, ORACLES)
