"""C17 - branch administration preserves stacks and touches only the named branch.

Deciding method: Coq theorems (Properties/C17.v) about the executable model of the three ref
namespaces and the config sections keyed by branch name (Model/Branch.v): deinitialize removes
exactly the named branch's stack refs and stgit config, clone / rename carry the same state
commit and exactly its patch refs, refused sub-commands change nothing, unrelated branches are
never touched; transactions set up with use_index_and_worktree(false) never change index or
work tree.  Ties to the source: the regenerated command table (every --branch-capable command
runs its transactions without index/work tree once --branch is present; is_protected precedes
the first write in delete, cleanup, rebase, pull, repair; clone / rename let git refuse the new
name first) and history-level differential testing of the extracted model (ocaml/bdriver)
against the real `stg branch` sub-commands in repositories with several stacks and awkward
branch names.  Direct oracles: whole-repository before/after comparison (refs, config, HEAD,
index, work tree, stack.json of every branch) around every branch sub-command and every
--branch-directed command."""

import json
import os
import subprocess

from . import common, gate, repo

LEVEL = "proof"

NAMES = ["a", "a.b", "a-b", "ab", "abc", "feat/x", "feat/xy", "feat/x.y", "feat", "x.y.z", "rel-1.0", "A",
         "wip/a", "wip/a.b", "a/b", "t", "t.stgit", "main2"]


# ----------------------------------------------------------------------------- observation


def hexs(s):
    b = s.encode("utf-8") if isinstance(s, str) else s
    return b.hex() if b else "-"


class Ids:
    def __init__(self):
        self.m = {}

    def of(self, oid):
        if oid not in self.m:
            self.m[oid] = len(self.m) + 1
        return self.m[oid]


def snapshot(r):
    """everything C17 speaks about, raw (object ids as hex)"""
    refs = {}
    out = r.git(["for-each-ref", "--format=%(refname) %(objectname)"]).stdout
    for line in out.splitlines():
        name, oid = line.rsplit(" ", 1)
        refs[name] = oid
    cfg = []
    p = subprocess.run(["git", "config", "--local", "--list", "-z"], cwd=r.path, env=r.env(), capture_output=True)
    for ent in p.stdout.split(b"\0"):
        if not ent:
            continue
        key, _, val = ent.partition(b"\n")
        key = key.decode("utf-8", "replace")
        if not key.startswith("branch."):
            continue
        rest = key[len("branch."):]
        sub, _, k = rest.rpartition(".")
        cfg.append((sub, k, val.decode("utf-8", "replace")))
    hp = r.git(["symbolic-ref", "-q", "HEAD"], check=False)
    head = hp.stdout.strip()
    head = head[len("refs/heads/"):] if head.startswith("refs/heads/") else None
    states = {}
    stacks = {}
    for name, oid in refs.items():
        if name.startswith("refs/stacks/"):
            sj = r.git(["show", oid + ":stack.json"], check=False)
            if sj.returncode == 0:
                try:
                    d = json.loads(sj.stdout)
                    allp = d["applied"] + d["unapplied"] + d["hidden"]
                    states[oid] = [(pn, d["patches"][pn]["oid"]) for pn in allp]
                    stacks[name[len("refs/stacks/"):]] = {"applied": d["applied"], "unapplied": d["unapplied"],
                                                          "hidden": d["hidden"], "head": d["head"],
                                                          "prev": d.get("prev"),
                                                          "patches": {pn: d["patches"][pn]["oid"] for pn in allp}}
                except (ValueError, KeyError):
                    pass
    index_tree = r.git(["write-tree"], check=False).stdout.strip()
    st = r.git(["status", "--porcelain", "-uall"], check=False).stdout
    wt = {}
    for root, dirs, files in os.walk(r.path):
        if ".git" in dirs:
            dirs.remove(".git")
        for f in files:
            pth = os.path.join(root, f)
            try:
                wt[os.path.relpath(pth, r.path)] = open(pth, "rb").read()
            except OSError:
                pass
    head_oid = r.git(["rev-parse", "--verify", "-q", "HEAD"], check=False).stdout.strip()
    return {"refs": refs, "cfg": sorted(cfg), "head": head, "states": states, "stacks": stacks,
            "index": index_tree, "status": st, "wt": wt, "head_oid": head_oid}


def model_request(s, ids, op):
    refs = ",".join("%s=%d" % (hexs(k), ids.of(v)) for k, v in sorted(s["refs"].items())
                    if k.startswith(("refs/heads/", "refs/stacks/", "refs/patches/"))) or "-"
    cfg = ",".join("%s:%s:%s" % (hexs(a), hexs(b), hexs(c)) for a, b, c in s["cfg"]) or "-"
    head = hexs(s["head"]) if s["head"] else "_"
    states = "|".join("%d:%s" % (ids.of(oid), ";".join("%s=%d" % (hexs(pn), ids.of(c)) for pn, c in ps))
                      for oid, ps in sorted(s["states"].items())) or "-"
    if op[0] == "create":
        hid = ids.of(s["head_oid"])
        opf = ["create", hexs(op[1]), hexs(op[2]) if op[2] else "_", str(hid), str(len(ids.m) + 1)]
    elif op[0] == "describe":
        opf = ["describe", hexs(op[1]), hexs(op[2]) if op[2] else "-"]
    else:
        opf = [op[0]] + [hexs(x) if isinstance(x, str) else ("1" if x else "0") for x in op[1:]]
    return ["bstep", refs, cfg, head, states] + opf


def model_view(s, ids, ok):
    refs = sorted("%s=%d" % (hexs(k), ids.of(v)) for k, v in s["refs"].items()
                  if k.startswith(("refs/heads/", "refs/stacks/", "refs/patches/")))
    cfg = sorted("%s:%s:%s" % (hexs(a), hexs(b), hexs(c)) for a, b, c in s["cfg"])
    return "ok=%d head=%s refs=%s cfg=%s" % (1 if ok else 0, hexs(s["head"]) if s["head"] else "_",
                                             ",".join(refs) or "-", ",".join(cfg) or "-")


class BDriver:
    def __init__(self, exe):
        self.p = subprocess.Popen([exe], stdin=subprocess.PIPE, stdout=subprocess.PIPE, text=True, bufsize=1)
        self.n = 0

    def ask(self, fields):
        self.n += 1
        self.p.stdin.write("%d\t%s\n" % (self.n, "\t".join(fields)))
        self.p.stdin.flush()
        line = self.p.stdout.readline().rstrip("\n")
        rid, _, text = line.partition("\t")
        assert rid == str(self.n), (rid, self.n, line)
        return text

    def close(self):
        try:
            self.p.stdin.close()
            self.p.wait(timeout=5)
        except Exception:
            self.p.kill()


def build_bdriver():
    with common.Lock("ocaml"):
        src = [os.path.join(common.OCAML, f) for f in ("bmodel.mli", "bmodel.ml", "bdriver.ml")]
        exe = os.path.join(common.OCAML, "bdriver")
        if os.path.exists(exe) and all(os.path.getmtime(s) <= os.path.getmtime(exe) for s in src):
            return exe
        p = common.run(["ocamlfind", "ocamlopt", "-O2", "-w", "-a", "bmodel.mli", "bmodel.ml", "bdriver.ml", "-o",
                        "bdriver"], cwd=common.OCAML, timeout=600)
        if p.returncode != 0:
            raise common.BuildError("ocaml bdriver build failed:\n" + p.stderr[-3000:])
        return exe


# ----------------------------------------------------------------------------- direct oracles


def refs_of_branch(refs, b):
    pre = "refs/patches/%s/" % b
    return {k: v for k, v in refs.items()
            if k == "refs/heads/" + b or k == "refs/stacks/" + b or k.startswith(pre)}


def cfg_of_branch(cfg, b):
    return [e for e in cfg if e[0] == b or e[0] == b + ".stgit"]


def unrelated(b, c):
    return b != c and not c.startswith(b + "/") and not b.startswith(c + "/") \
        and c != b + ".stgit" and b != c + ".stgit"


def others_untouched(before, after, named):
    """refs and config of every branch unrelated to the named ones are as before"""
    probs = []
    branches = {k[len("refs/heads/"):] for k in before["refs"] if k.startswith("refs/heads/")}
    for c in sorted(branches):
        if all(unrelated(b, c) for b in named):
            if refs_of_branch(before["refs"], c) != refs_of_branch(after["refs"], c):
                probs.append("refs of unrelated branch %r changed" % c)
            if cfg_of_branch(before["cfg"], c) != cfg_of_branch(after["cfg"], c):
                probs.append("config of unrelated branch %r changed" % c)
            if before["stacks"].get(c) != after["stacks"].get(c):
                probs.append("stack of unrelated branch %r changed" % c)
    # refs outside the three namespaces (tags, notes, ...) never change
    for k in set(before["refs"]) | set(after["refs"]):
        if not k.startswith(("refs/heads/", "refs/stacks/", "refs/patches/")):
            if before["refs"].get(k) != after["refs"].get(k):
                probs.append("ref %s changed" % k)
    return probs


def wt_same(before, after):
    probs = []
    if before["index"] != after["index"]:
        probs.append("index changed")
    if before["wt"] != after["wt"]:
        probs.append("work tree changed")
    return probs


def patch_refs_match(s, b):
    st = s["stacks"].get(b)
    if st is None:
        return ["no readable stack for %r" % b]
    pre = "refs/patches/%s/" % b
    have = {k[len(pre):]: v for k, v in s["refs"].items() if k.startswith(pre)}
    return [] if have == st["patches"] else ["patch refs of %r are %r, stack records %r" % (b, have, st["patches"])]


def oracle(op, rc, before, after):
    """the property, read directly off the two repository snapshots"""
    kind = op[0]
    probs = []
    cur = before["head"]
    if rc != 0:
        # a refused sub-command changes nothing at all
        for key in ("refs", "cfg", "head", "index", "wt"):
            if before[key] != after[key]:
                probs.append("refused (exit %d) but %s changed" % (rc, key))
        return probs
    if kind == "clone":
        new = op[1]
        probs += others_untouched(before, after, [new])
        if refs_of_branch(before["refs"], cur) != refs_of_branch(after["refs"], cur):
            probs.append("clone changed refs of the branch cloned from")
        if cfg_of_branch(before["cfg"], cur) != cfg_of_branch(after["cfg"], cur):
            probs.append("clone changed config of the branch cloned from")
        if cur in before["stacks"]:
            if after["refs"].get("refs/stacks/" + new) != before["refs"].get("refs/stacks/" + cur):
                probs.append("clone: state ref of the new branch is not the state commit cloned")
            if after["stacks"].get(new) != before["stacks"].get(cur):
                probs.append("clone: stack lists differ")
            probs += patch_refs_match(after, new)
        if after["refs"].get("refs/heads/" + new) != before["refs"].get("refs/heads/" + cur):
            probs.append("clone: new branch does not point at the old head")
        if after["head"] != new:
            probs.append("clone: HEAD is %r" % after["head"])
        probs += wt_same(before, after)
    elif kind == "rename" and op[1] == op[2]:
        probs.append("renaming a branch to itself succeeded")
        for key in ("refs", "cfg", "head", "index", "wt"):
            if before[key] != after[key]:
                probs.append("rename onto itself changed %s" % key)
    elif kind == "rename":
        old, new = op[1], op[2]
        probs += others_untouched(before, after, [old, new])
        left = refs_of_branch(after["refs"], old)
        if left:
            probs.append("rename left refs under the old name: %r" % sorted(left))
        leftc = cfg_of_branch(after["cfg"], old)
        if leftc and unrelated(old, new):
            probs.append("rename left config under the old name: %r" % leftc)
        if old in before["stacks"]:
            if after["refs"].get("refs/stacks/" + new) != before["refs"].get("refs/stacks/" + old):
                probs.append("rename: state ref of the new name is not the old state commit")
            if after["stacks"].get(new) != before["stacks"].get(old):
                probs.append("rename: stack lists differ")
            probs += patch_refs_match(after, new)
        if after["refs"].get("refs/heads/" + new) != before["refs"].get("refs/heads/" + old):
            probs.append("rename: branch head differs")
        if unrelated(old, new):
            carried = [(new + s[0][len(old):], s[1], s[2]) for s in cfg_of_branch(before["cfg"], old)]
            # entries that were already there under the NEW name (left by `git branch -D` of an earlier
            # branch of that name, which removes branch.<n> but not branch.<n>.stgit) are not the
            # rename's doing: the property speaks of what is carried over and of the old name
            # (stg sets / unsets parentbranch and description itself and leaves other leftover keys alone:
            # a leftover entry may survive or go, every carried entry must be there, nothing else may appear)
            pre = {(s[0], s[1]): s for s in cfg_of_branch(before["cfg"], new)}
            car = {(s[0], s[1]): s for s in carried}
            got = sorted(cfg_of_branch(after["cfg"], new))
            gotm = {(s[0], s[1]): s for s in got}
            want = sorted(car.values())
            bad = [k for k in car if gotm.get(k) != car[k]] + \
                  [k for k in gotm if k not in car and pre.get(k) != gotm[k]]
            if bad:
                probs.append("rename: config carried over is %r, expected %r" % (got, want))
        if after["head"] != (new if cur == old else cur):
            probs.append("rename: HEAD is %r" % after["head"])
        probs += wt_same(before, after)
    elif kind in ("delete", "cleanup"):
        b = op[1]
        probs += others_untouched(before, after, [b])
        left = refs_of_branch(after["refs"], b)
        want_left = {} if kind == "delete" else {k: v for k, v in refs_of_branch(before["refs"], b).items()
                                                  if k == "refs/heads/" + b}
        if left != want_left:
            probs.append("%s left %r" % (kind, sorted(left)))
        leftc = cfg_of_branch(after["cfg"], b)
        want_c = [] if kind == "delete" else [e for e in cfg_of_branch(before["cfg"], b) if e[0] == b]
        if leftc != want_c:
            probs.append("%s left config %r" % (kind, leftc))
        if (b + ".stgit", "protect", "true") in before["cfg"] and b in before["stacks"]:
            probs.append("%s succeeded on a protected branch" % kind)
        if kind == "cleanup" or b != cur:
            probs += wt_same(before, after)
            if after["head"] != cur:
                probs.append("%s moved HEAD" % kind)
    elif kind == "create":
        new, frm = op[1], op[2]
        probs += others_untouched(before, after, [new])
        parent = frm or cur
        for c in {k[len("refs/heads/"):] for k in before["refs"] if k.startswith("refs/heads/")}:
            if c != new and refs_of_branch(before["refs"], c) != refs_of_branch(after["refs"], c):
                probs.append("create changed refs of branch %r" % c)
            if c != new and unrelated(c, new) and cfg_of_branch(before["cfg"], c) != cfg_of_branch(after["cfg"], c):
                probs.append("create changed config of branch %r" % c)
        want_head = before["refs"].get("refs/heads/" + frm) if frm else before["head_oid"]
        if after["refs"].get("refs/heads/" + new) != want_head:
            probs.append("create: the new branch does not start at the parent's head")
        st = after["stacks"].get(new)
        if st is None or st["applied"] or st["unapplied"] or st["hidden"]:
            probs.append("create: the new branch does not have an empty stack: %r" % (st,))
        if [k for k in after["refs"] if k.startswith("refs/patches/%s/" % new)]:
            probs.append("create: patch refs exist under the new name")
        if after["head"] != new:
            probs.append("create: HEAD is %r" % after["head"])
        if parent and (new + ".stgit", "parentbranch", parent) not in after["cfg"]:
            probs.append("create: parent branch %r not recorded" % parent)
    elif kind == "switch":
        if before["refs"] != after["refs"] or before["cfg"] != after["cfg"]:
            probs.append("switch changed refs or config")
        if after["head"] != op[1]:
            probs.append("switch: HEAD is %r" % after["head"])
    elif kind == "describe":
        b = op[1]
        if before["refs"] != after["refs"]:
            probs.append("describe changed refs")
        want = [e for e in before["cfg"] if e[:2] != (b, "description")]
        if op[2]:
            want = sorted(want + [(b, "description", op[2])])
        if after["cfg"] != want:
            probs.append("describe: config is %r, expected %r" % (after["cfg"], want))
        if after["head"] != cur:
            probs.append("describe moved HEAD")
        probs += wt_same(before, after)
    elif kind in ("protect", "unprotect"):
        b = op[1]
        probs += others_untouched(before, after, [b])
        if before["refs"] != after["refs"]:
            probs.append("%s changed refs" % kind)
        want = [e for e in before["cfg"] if e[:2] != (b + ".stgit", "protect")]
        if kind == "protect":
            want = sorted(want + [(b + ".stgit", "protect", "true")])
        if after["cfg"] != want:
            probs.append("%s: config is %r, expected %r" % (kind, after["cfg"], want))
        probs += wt_same(before, after)
    return probs


def oracle_other_branch(target, rc, before, after):
    """a command directed at another branch with --branch"""
    probs = []
    cur = before["head"]
    probs += wt_same(before, after)
    if after["head"] != cur:
        probs.append("HEAD moved")
    for c in {k[len("refs/heads/"):] for k in before["refs"] if k.startswith("refs/heads/")}:
        if c != target:
            if refs_of_branch(before["refs"], c) != refs_of_branch(after["refs"], c):
                probs.append("refs of branch %r changed by a command directed at %r" % (c, target))
    if before["cfg"] != after["cfg"]:
        probs.append("config changed")
    if rc == 0 and target in after["stacks"]:
        probs += patch_refs_match(after, target)
    return probs


# ----------------------------------------------------------------------------- scenarios


def make_branch(r, stg, rng, name, k, log):
    """a branch with a stack of k patches, some popped / hidden"""
    def do(args, kind="stg"):
        p = r.stg(stg, args) if kind == "stg" else r.git(args, check=False)
        log.append([kind] + args)
        return p
    if do(["branch", name, "main"], "git").returncode != 0:
        return False
    do(["checkout", "-q", name], "git")
    if rng.random() < 0.85:
        do(["init"])
        for i in range(k):
            pn = "%s%d" % (rng.choice(["p", "fix", "q"]), i)
            do(["new", "-m", "patch %s on %s" % (pn, name), pn])
            fn = "f-%s-%d.txt" % (name.replace("/", "_"), i)
            with open(os.path.join(r.path, fn), "w") as f:
                f.write("%s %d\n" % (name, i))
            log.append(["write", fn, "%s %d\n" % (name, i)])
            do(["add", fn], "git")
            do(["refresh"])
        if k and rng.random() < 0.5:
            do(["pop", "-n", str(rng.randint(1, k))])
        if k and rng.random() < 0.3:
            do(["hide", "%s" % r.stg(stg, ["series", "--noprefix", "-a"]).stdout.split()[-1]])
        if rng.random() < 0.3:
            do(["branch", "--protect"])
        if rng.random() < 0.3:
            do(["branch", "--describe", "about %s" % name])
    do(["checkout", "-q", "main"], "git")
    return True


def gen_op(rng, s):
    branches = sorted(k[len("refs/heads/"):] for k in s["refs"] if k.startswith("refs/heads/"))
    fresh = [n for n in NAMES if n not in branches]
    anyb = lambda: rng.choice(branches + ([rng.choice(fresh)] if fresh and rng.random() < 0.1 else []))
    newn = lambda: rng.choice(fresh) if fresh and rng.random() < 0.8 else rng.choice(branches)
    x = rng.random()
    y = rng.random()
    if y < 0.12:
        return ["create", newn(), (rng.choice(branches) if rng.random() < 0.5 else None)]
    if y < 0.17:
        return ["switch", anyb()]
    if y < 0.22:
        return ["describe", anyb(), rng.choice(["", "about it", "two words", "d\u00e9crit"])]
    if y < 0.27:
        others = [b for b in branches if b != s["head"]]
        if others:
            return ["gitdelete", rng.choice(others)]      # plain git: the stack refs of the branch stay behind
    if x < 0.18:
        return ["clone", newn()]
    if x < 0.40:
        return ["rename", anyb(), newn()]
    if x < 0.52:
        return ["delete", anyb(), rng.random() < 0.6]
    if x < 0.62:
        return ["cleanup", anyb(), rng.random() < 0.6]
    if x < 0.69:
        return ["protect", anyb()]
    if x < 0.75:
        return ["unprotect", anyb()]
    if x < 0.80:
        return ["checkout", rng.choice(branches)]
    return ["other", rng.choice(branches), rng.choice(["hide", "unhide", "delete", "rename", "delete-top"])]


def argv_of(op):
    k = op[0]
    if k == "create":
        return ["branch", "--create", op[1]] + ([op[2]] if op[2] else [])
    if k == "switch":
        return ["branch", op[1]]
    if k == "describe":
        return ["branch", "--describe", op[2], op[1]]
    if k == "clone":
        return ["branch", "--clone", op[1]]
    if k == "rename":
        return ["branch", "--rename", op[1], op[2]]
    if k in ("delete", "cleanup"):
        return ["branch", "--" + k] + (["--force"] if op[2] else []) + [op[1]]
    return ["branch", "--" + k, op[1]]


def in_model(op, s):
    """operations whose outcome the model predicts"""
    k = op[0]
    cur = s["head"]
    if k == "clone":
        return cur is not None and cur in s["stacks"]
    if k == "delete" and op[1] == cur:
        parent = [e[2] for e in s["cfg"] if e[0] == cur + ".stgit" and e[1] == "parentbranch"]
        return bool(parent) and ("refs/heads/" + parent[0]) in s["refs"]
    if k == "create":
        return bool(s["head_oid"])
    return k in ("rename", "delete", "cleanup", "protect", "unprotect", "switch", "describe")


def has_twin(s, op):
    """the operation names a branch n while a branch n.stgit (or n minus .stgit) exists: the
    config section branch.<n>.stgit is then shared by two branches (known finding F32)"""
    branches = {k[len("refs/heads/"):] for k in s["refs"] if k.startswith("refs/heads/")}
    named = {x for x in op[1:] if isinstance(x, str)} | ({s["head"]} if op[0] == "clone" and s["head"] else set())
    allb = branches | named
    return any((n + ".stgit") in allb or (n.endswith(".stgit") and n[:-6] in allb) for n in named)


def run_scenario(stg, bd, rng, nops, tag="c17"):
    """returns (records, failure or None)"""
    log = []
    recs = []
    with repo.Scratch(tag) as r:
        r.init_repo()
        if rng.random() < 0.7:
            r.stg(stg, ["init"])
            log.append(["stg", "init"])
        names = rng.sample(NAMES, rng.randint(2, 4))
        for n in names:
            make_branch(r, stg, rng, n, rng.randint(0, 3), log)
        if rng.random() < 0.6:
            br = [k[len("refs/heads/"):] for k in snapshot(r)["refs"] if k.startswith("refs/heads/")]
            b = rng.choice(br)
            r.git(["checkout", "-q", b])
            log.append(["git", "checkout", "-q", b])
        ids = Ids()
        for _ in range(nops):
            before = snapshot(r)
            op = gen_op(rng, before)
            if op[0] == "checkout":
                r.git(["checkout", "-q", op[1]], check=False)
                log.append(["git", "checkout", "-q", op[1]])
                continue
            if op[0] == "gitdelete":
                r.git(["branch", "-q", "-D", op[1]], check=False)
                log.append(["git", "branch", "-q", "-D", op[1]])
                recs.append(("gitdelete", 0))
                continue
            if op[0] == "other":
                target, what = op[1], op[2]
                st = before["stacks"].get(target)
                if not st or target == before["head"]:
                    continue
                allp = st["applied"] + st["unapplied"] + st["hidden"]
                if what == "hide" and st["applied"] + st["unapplied"]:
                    argv = ["hide", "--branch", target, rng.choice(st["applied"] + st["unapplied"])]
                elif what == "unhide" and st["hidden"]:
                    argv = ["unhide", "--branch", target, rng.choice(st["hidden"])]
                elif what == "delete" and allp:
                    argv = ["delete", "--branch", target, rng.choice(allp)]
                elif what == "delete-top" and st["applied"]:
                    argv = ["delete", "--branch", target, "--top"]
                elif what == "rename" and allp:
                    argv = ["rename", "--branch", target, rng.choice(allp), "renamed-%d" % rng.randint(0, 99)]
                else:
                    continue
                p = r.stg(stg, argv)
                log.append(["stg"] + argv)
                after = snapshot(r)
                probs = oracle_other_branch(target, p.returncode, before, after)
                recs.append(("other:" + what, p.returncode))
                if probs or "panicked" in p.stderr:
                    return recs, {"obligation": "direct-oracle:C17:--branch", "setup": log[:-1], "argv": argv,
                                  "exit": p.returncode, "problems": probs, "stderr": p.stderr[-400:]}
                continue
            if op[0] == "delete" and op[1] == before["head"] and not in_model(op, before):
                continue      # current branch without a usable parent: refused or half-done, unmodelled
            argv = argv_of(op)
            p = r.stg(stg, argv)
            log.append(["stg"] + argv)
            after = snapshot(r)
            recs.append((op[0], p.returncode))
            if "panicked" in p.stderr:
                return recs, {"obligation": "direct-oracle:C17", "setup": log[:-1], "argv": argv, "op": op,
                              "exit": p.returncode, "problems": ["panic"], "stderr": p.stderr[-400:]}
            probs = oracle(op, p.returncode, before, after)
            if probs:
                return recs, {"obligation": "direct-oracle:C17", "setup": log[:-1], "argv": argv, "op": op,
                              "exit": p.returncode, "problems": probs, "stderr": p.stderr[-400:],
                              "twin": has_twin(before, op)}
            if in_model(op, before):
                pred = bd.ask(model_request(before, ids, op))
                got = model_view(after, ids, p.returncode == 0)
                if pred != got:
                    return recs, {"obligation": "correspondence:C17:branch-model", "setup": log[:-1], "argv": argv,
                                  "op": op, "exit": p.returncode, "model": pred, "implementation": got,
                                  "stderr": p.stderr[-400:], "twin": has_twin(before, op)}
    return recs, None


def protected_cmds(stg, rng):
    """rebase, pull, repair, delete, cleanup refuse on a protected branch and change nothing"""
    fails = []
    n = 0
    with repo.Scratch("c17p") as r:
        r.init_repo()
        log = []
        make_branch(r, stg, rng, "prot", 2, log)
        # main moves on, and a remote to pull from: rebase and pull have work to do
        r.write("main-more.txt", "more\n")
        r.git(["add", "-A"])
        r.git(["commit", "-q", "-m", "main moves on"])
        remote = os.path.join(r.home, "remote.git")
        r.git(["clone", "-q", "--bare", r.path, remote])
        r.git(["remote", "add", "origin", remote])
        r.git(["fetch", "-q", "origin"])
        r.git(["checkout", "-q", "prot"])
        r.git(["config", "branch.prot.remote", "origin"])
        r.git(["config", "branch.prot.merge", "refs/heads/main"])
        r.stg(stg, ["init"])
        r.stg(stg, ["branch", "--protect"])
        for argv in (["rebase", "main"], ["pull"], ["repair"], ["branch", "--cleanup", "--force"],
                     ["branch", "--cleanup", "--force", "prot"], ["branch", "--delete", "--force", "prot"]):
            if "--delete" in argv:
                r.git(["checkout", "-q", "main"])
            before = snapshot(r)
            p = r.stg(stg, argv)
            after = snapshot(r)
            n += 1
            probs = []
            if p.returncode == 0:
                probs.append("succeeded on a protected branch")
            if "protected" not in p.stderr:
                probs.append("refused for another reason: %s" % p.stderr.strip()[-120:])
            for key in ("refs", "cfg", "head", "index", "wt"):
                if before[key] != after[key]:
                    probs.append("%s changed" % key)
            if probs:
                fails.append({"obligation": "direct-oracle:C17:protected", "argv": argv, "exit": p.returncode,
                              "problems": probs, "stderr": p.stderr[-300:]})
    return n, fails


def run(ctx):
    stg = common.build_stg()
    broken = gate.coq_gate(ctx, need_extract=False)
    ok, text = common.coq_make(["ExtractBranch.vo"])
    if not ok:
        broken.append("coq build failed: ExtractBranch.vo: " + text[-300:])
    bd = BDriver(build_bdriver())
    nscen = 14 if ctx.quick() else 250
    nops = 8 if ctx.quick() else 12
    total = 0
    distinct = set()
    failures = []
    dist = {}
    for i in range(nscen):
        seed = ctx.rng.randrange(1 << 30)
        import random
        recs, fail = run_scenario(stg, bd, random.Random(seed), nops)
        total += len(recs)
        for k, rc in recs:
            distinct.add((k, rc))
            dist["%s:%d" % (k, rc)] = dist.get("%s:%d" % (k, rc), 0) + 1
        if fail:
            fail["seed"] = seed
            fail["nops"] = nops
            failures.append(fail)
            if len(failures) >= 3:
                break
    bd.close()
    n2, f2 = protected_cmds(stg, ctx.rng)
    total += n2
    failures += f2
    n3, f3 = orphan_probes(stg)
    total += n3
    failures += f3
    n4, f4 = prefix_probes(stg)
    total += n4
    failures += f4
    ctx.obligations += 2
    reported = 0
    kf = json.load(open(os.path.join(common.VERIF, "known_findings.json")))
    known = [e for e in kf if "C17" in e.get("properties", []) and e.get("status") == "known"]
    seen_known = set()
    for f in failures:
        k = match_known(f, known)
        if k:
            seen_known.add(k["id"])
            continue
        common.violation(ctx, f, found_input=True, hint="oracle-" if f["obligation"].startswith("direct") else "corr-")
        reported += 1
    if not reported:
        ctx.discharged += 2
    twin = twin_probe(stg)
    for e in known:
        if e["id"] in seen_known or (e["id"] == "F32" and twin):
            ctx.known.append("%s: %s" % (e["id"], e["what"]))
    if broken and not ctx.violations:
        common.violation(ctx, {"obligation": "Properties/C17.v", "broken": broken,
                               "searched": "%d branch sub-commands over %d scenarios agreed with the model and the "
                                           "direct oracles" % (total, nscen)}, found_input=False, hint="proof-")
    ctx.coverage.update({
        "evaluations": total, "distinct_nontrivial": len(distinct),
        "rule": "random scenarios: 2-4 branches from %d awkward names (dots, slashes, shared prefixes, case, a "
                "'.stgit' twin), each with 0-3 patches, pops, hides, protect, description; then %d random branch "
                "sub-commands / --branch-directed commands each; every step judged by the direct oracle and, where "
                "the model applies, compared with the extracted model; distinct = distinct (operation, exit)" % (
                    len(NAMES), nops),
        "operation_distribution": dist,
        "traces_validated_against_impl": total,
        "samples": [{"op": k, "exit": rc} for k, rc in sorted(distinct)[:6]],
    })
    ctx.trusted_base += ["extraction of Model/Branch.v: ExtrOcamlBasic only -> ocaml/bmodel.ml, driver ocaml/bdriver.ml"]
    ctx.assumptions += [
        "git's own behaviour is modelled, not verified: branch --move/--copy (refusal of existing or directory/file-"
        "conflicting names, config section rename/copy), ref deletion, git-config file rewriting",
        "the work-tree side of clone / delete of the current branch (git checkout of the new or parent branch) is "
        "judged by the direct oracle only",
        "delete of the current branch whose recorded parent branch no longer exists is not exercised (unmodelled "
        "half-done outcome)",
    ]


def match_known(f, known):
    import re
    for e in known:
        m = e.get("match", {})
        if m.get("twin") and not (f.get("twin") and any("config" in p for p in f.get("problems", ["config"]))):
            continue
        if "op" in m and (f.get("op") or [None])[0] != m["op"]:
            continue
        if "problem_re" in m and not any(re.search(m["problem_re"], p) for p in f.get("problems", [])):
            if not ("model_re" in m and re.search(m["model_re"], json.dumps(f))):
                continue
        if "name_re" in m and not re.search(m["name_re"], " ".join(map(str, f.get("op", [])))):
            continue
        return e
    return None


def orphan_probes(stg):
    """a name whose branch was deleted with plain git keeps its refs/stacks/<n> and refs/patches/<n>/*:
    `--create` and `--clone` onto that name give it exactly the new stack's refs, `--rename` onto it
    refuses and changes nothing"""
    fails = []
    n = 0
    for kind in ("create", "create-from", "clone-empty", "clone", "rename"):
        with repo.Scratch("c17o") as r:
            r.init_repo()
            r.stg(stg, ["init"])
            log = []
            import random
            make_branch(r, stg, random.Random(5), "gone", 3, log)
            r.git(["checkout", "-q", "main"])
            if kind in ("clone", "rename"):
                r.stg(stg, ["new", "-m", "m1", "m1"])
            r.git(["branch", "-q", "-D", "gone"])
            before = snapshot(r)
            argv = {"create": ["branch", "--create", "gone"], "create-from": ["branch", "--create", "gone", "main"],
                    "clone-empty": ["branch", "--clone", "gone"], "clone": ["branch", "--clone", "gone"],
                    "rename": ["branch", "--rename", "main", "gone"]}[kind]
            p = r.stg(stg, argv)
            after = snapshot(r)
            n += 1
            probs = []
            if kind == "rename":
                if p.returncode == 0:
                    probs.append("rename onto a name that still has a stack state ref succeeded")
                for key in ("refs", "cfg", "head"):
                    if before[key] != after[key]:
                        probs.append("refused rename changed %s" % key)
            else:
                if p.returncode != 0:
                    probs.append("failed: " + p.stderr.strip()[-200:])
                else:
                    probs += patch_refs_match(after, "gone")
                    if kind.startswith("create") and after["stacks"].get("gone", {}).get("patches"):
                        probs.append("the created branch has patches")
                    if after["head"] != "gone":
                        probs.append("HEAD is %r" % after["head"])
            if probs:
                fails.append({"obligation": "direct-oracle:C17:orphan", "kind": kind, "argv": argv, "exit": p.returncode,
                              "problems": probs, "stderr": p.stderr[-300:]})
    return n, fails


def prefix_probes(stg):
    """branches whose names share a prefix (`feat` / `feat2` / `feat/x`-style neighbours cannot coexist,
    so: `pre` and `prefix`, `a.b` and `a.bc`): cleanup / delete / rename of the shorter one leaves every
    ref and config entry of the longer one alone"""
    import random
    fails = []
    n = 0
    for short, long_ in (("pre", "prefix"), ("a.b", "a.bc"), ("x", "x-1")):
        for kind in ("cleanup", "delete", "rename", "clone-delete"):
            with repo.Scratch("c17x") as r:
                r.init_repo()
                r.stg(stg, ["init"])
                log = []
                make_branch(r, stg, random.Random(7), short, 2, log)
                make_branch(r, stg, random.Random(8), long_, 3, log)
                r.git(["checkout", "-q", "main"])
                before = snapshot(r)
                argvs = {"cleanup": [["branch", "--cleanup", "--force", short]],
                         "delete": [["branch", "--delete", "--force", short]],
                         "rename": [["branch", "--rename", short, "moved"]],
                         "clone-delete": [["branch", short], ["branch", "--clone", "copy"], ["branch", "main"],
                                          ["branch", "--delete", "--force", "copy"]]}[kind]
                for argv in argvs:
                    p = r.stg(stg, argv)
                after = snapshot(r)
                n += 1
                probs = []
                if refs_of_branch(before["refs"], long_) != refs_of_branch(after["refs"], long_):
                    probs.append("refs of %r changed" % long_)
                if cfg_of_branch(before["cfg"], long_) != cfg_of_branch(after["cfg"], long_):
                    probs.append("config of %r changed" % long_)
                if before["stacks"].get(long_) != after["stacks"].get(long_):
                    probs.append("stack of %r changed" % long_)
                if probs:
                    fails.append({"obligation": "direct-oracle:C17:prefix", "kind": kind, "argv": argvs, "short": short,
                                  "long": long_, "exit": p.returncode, "problems": probs, "stderr": p.stderr[-300:]})
    return n, fails


def twin_probe(stg):
    """F32: deleting a branch literally called <b>.stgit drops b's stgit config"""
    with repo.Scratch("c17t") as r:
        r.init_repo()
        r.git(["branch", "t"])
        r.git(["branch", "t.stgit"])
        r.git(["checkout", "-q", "t"])
        r.stg(stg, ["init"])
        r.stg(stg, ["branch", "--protect"])
        r.git(["checkout", "-q", "main"])
        r.stg(stg, ["branch", "--delete", "t.stgit"])
        s = snapshot(r)
        return ("t.stgit", "protect", "true") not in s["cfg"]


def replay(ctx, path):
    doc = json.load(open(path))
    stg = common.build_stg()
    if "seed" in doc:
        import random
        common.coq_make(["ExtractBranch.vo"])
        bd = BDriver(build_bdriver())
        recs, fail = run_scenario(stg, bd, random.Random(doc["seed"]), doc.get("nops", 8))
        bd.close()
        print(json.dumps(fail, indent=1) if fail else "no failure reproduced")
        return 1 if fail else 0
    print("replay needs the scenario seed")
    return 0
