"""C16 - inspection commands never modify the repository.

Deciding method: Coq theorems (Properties/C16.v): opening a stack with a non-initialising
policy leaves a mirrored repository unchanged and never initialises; tie to the source: the
regenerated command table shows that every inspection command (and the shared revision-spec
resolver) uses only AllowUninitialized / RequireInitialized, runs no transaction and calls
nothing that writes (stg log: clear_state_log only under --clear).  Direct oracle: full
snapshot equality (refs, HEAD, config, index, work tree) around every inspection command with
valid and invalid arguments in every repository state of the fuzz corpus."""

import json

from . import cli_fuzz, common, gate, repo, rigs

LEVEL = "proof"

INSPECT = [
    ["series"], ["series", "-a"], ["series", "-A"], ["series", "-U"], ["series", "-H"], ["series", "-d", "-e"],
    ["series", "--short"], ["series", "-r", "main"], ["series", "-b", "other"], ["series", "p0..p1"],
    ["series", "nope"], ["series", "--missing", "other"],
    ["show"], ["show", "p0"], ["show", "p0..p2"], ["show", "nope"], ["show", "-a"], ["show", "-s"],
    ["id"], ["id", "p1"], ["id", "{base}"], ["id", "@~1"], ["id", "nope"], ["id", "-b", "other", "p0"],
    ["name", "HEAD"], ["name", "HEAD~1"], ["name", "nope"],
    ["top"], ["next"], ["prev"],
    ["patches"], ["patches", "f0.txt"], ["patches", "-d", "g0.txt"], ["patches", "nofile"],
    ["files"], ["files", "p0"], ["files", "--stat", "p1"], ["files", "nope"],
    ["diff"], ["diff", "-r", "p0..p1"], ["diff", "-r", "{base}..p1"], ["diff", "--stat"], ["diff", "-r", "nope"],
    ["log"], ["log", "p0"], ["log", "-n", "2"], ["log", "--full"], ["log", "nope"],
    ["export", "--stdout"], ["export", "--stdout", "p0..p1"], ["export", "--stdout", "nope"],
    ["branch", "--list"], ["branch"], ["version"], ["help"], ["--version"], ["series", "--help"],
    # branch-qualified revisions and -b options naming a branch that plain git made (`other` in most
    # states, `orphan` in all) or that has a stack (`other` in uninit-other, `copy` in cloned)
    ["show", "other:{base}"], ["files", "other:{base}"], ["diff", "-r", "other:{base}"], ["id", "other:{base}"],
    ["show", "other:nope"], ["show", "other:p0"], ["diff", "-r", "other:p0..p1"], ["id", "other:p1"],
    ["show", "orphan:{base}"], ["files", "orphan:{base}"], ["diff", "-r", "orphan:{base}"], ["id", "orphan:nope"],
    ["series", "-b", "orphan"], ["log", "-b", "orphan"], ["top", "-b", "orphan"], ["export", "--stdout", "-b", "other"],
    ["patches", "-b", "orphan"], ["files", "-b", "other", "p0"], ["show", "-b", "orphan", "p0"],
    ["show", "copy:p0"], ["diff", "-r", "copy:{base}..copy:p1"],
]


def run(ctx):
    stg = common.build_stg()
    broken = gate.coq_gate(ctx)
    n = 0
    failures = []
    distinct = set()
    states = cli_fuzz.STATES + ["cloned"]
    for state in states:
        with repo.Scratch("c16") as r:
            if state == "cloned":
                cli_fuzz.make_state(r, stg, "stack")
                r.stg(stg, ["branch", "--clone", "copy"])
            else:
                cli_fuzz.make_state(r, stg, state)
            cmds = list(INSPECT)
            ctx.rng.shuffle(cmds)
            for argv in cmds:
                before = rigs.full_snapshot(r)
                p = r.stg(stg, argv, timeout=30)
                after = rigs.full_snapshot(r)
                n += 1
                distinct.add((state, argv[0], p.returncode))
                changed = rigs.snap_diff(before, after)
                if changed:
                    failures.append({"repository_state": state, "argv": argv, "exit": p.returncode,
                                     "changed": changed, "stderr": p.stderr[-300:]})
                elif p.returncode not in (0, 1, 2, 3) or "panicked" in p.stderr:
                    failures.append({"repository_state": state, "argv": argv, "exit": p.returncode,
                                     "changed": [], "why": "panic / undocumented exit", "stderr": p.stderr[-300:]})
    ctx.obligations += 1
    if not failures:
        ctx.discharged += 1
    for f in failures[:4]:
        common.violation(ctx, {"obligation": "direct-oracle:C16:snapshot-equality", **f}, found_input=True, hint="oracle-")
    if broken and not ctx.violations:
        common.violation(ctx, {"obligation": "Properties/C16.v", "broken": broken,
                               "searched": "%d inspection commands over %d repository states changed nothing" % (n, len(states))},
                         found_input=False, hint="proof-")
    ctx.coverage.update({
        "evaluations": n, "distinct_nontrivial": len(distinct),
        "rule": "every inspection command line of harness/p_c16.py INSPECT (valid and invalid arguments) x repository "
                "states %r; distinct = distinct (state, command, exit)" % (states,),
        "samples": [{"state": "stack", "argv": a} for a in INSPECT[:4]],
        "traces_validated_against_impl": n,
    })
    ctx.assumptions += ["git subprocesses spawned by inspection commands (git show / diff / log) are read-only by "
                        "git's contract",
                        "refs hand-damaged outside stg are excluded by the property"]


def replay(ctx, path):
    doc = json.load(open(path))
    stg = common.build_stg()
    with repo.Scratch("c16r") as r:
        st = doc["repository_state"]
        cli_fuzz.make_state(r, stg, "stack" if st == "cloned" else st)
        if st == "cloned":
            r.stg(stg, ["branch", "--clone", "copy"])
        before = rigs.full_snapshot(r)
        p = r.stg(stg, doc["argv"])
        after = rigs.full_snapshot(r)
        ch = rigs.snap_diff(before, after)
        print("exit", p.returncode, "changed", ch)
        return 1 if ch else 0
