"""C02 - applied patches are exactly the commit chain from stack base to branch head

Deciding method: Coq theorems (Properties/C02.v) about the stack / command model
(Model/Stack.v, Model/Cmd.v), tied to the code by the translator (Gen/*.v) and by history-level
differential testing of the extracted model against the real stg, with direct oracles on the
real repository after every command."""

from . import histcheck

LEVEL = "proof"
PROFILES = [('BASIC', 2), ('REORDER', 1.5), ('REPAIR', 1.5), ('UNDO', 0.5)]
ORACLES = ['c02']


def run(ctx):
    histcheck.run_property(ctx, PROFILES, ORACLES, n_quick=48, n_thorough=700, nsteps=32 if ctx.quick() else 45,
                           own_oracle="c02", with_extras=True)


def replay(ctx, path):
    return histcheck.replay_scenario(ctx, path, ORACLES)
