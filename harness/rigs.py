"""Rigs that act on a running stg at named program points (hook 2): fail / kill / pause,
SIGINT delivery, two-process schedules; and a `git` PATH shim for subprocess faults."""

import os
import shutil
import signal
import subprocess
import time

from . import common, repo

POINTS = ["stack.loaded", "push.before_wt_merge", "exec.start", "exec.after_external_mods",
          "exec.before_checkout", "exec.after_checkout", "crit.enter", "crit.prev_read",
          "crit.state_committed", "crit.before_edit", "crit.after_edit", "exec.after_crit"]


NON_PROTOCOL_POINTS = {"extmods.prev_read"}


class PointDir:
    def __init__(self, scratch, tag="pt"):
        self.path = scratch.path + "." + tag
        shutil.rmtree(self.path, ignore_errors=True)
        os.makedirs(self.path)

    def clear(self):
        for f in os.listdir(self.path):
            os.remove(os.path.join(self.path, f))

    def log(self):
        p = os.path.join(self.path, "points.log")
        if not os.path.exists(p):
            return []
        # (points that exist only to pause a process for a race probe are not protocol points of the
        # transaction model)
        return [t for t in (tuple(l.split()) for l in open(p).read().split("\n") if l)
                if len(t) < 2 or t[1] not in NON_PROTOCOL_POINTS]

    def ref_edits(self):
        p = os.path.join(self.path, "ref_edits.txt")
        if not os.path.exists(p):
            return []
        return [l.split(" ") for l in open(p).read().split("\n") if l]

    def remove(self):
        shutil.rmtree(self.path, ignore_errors=True)


def run_with_point(scratch, stg, argv, pdir, spec=None, timeout=60, extra_env=None):
    env = {"STGIT_VERIF_DIR": pdir.path}
    if spec:
        env["STGIT_VERIF_POINT"] = spec
    if extra_env:
        env.update(extra_env)
    return scratch.stg(stg, argv, env=env, timeout=timeout)


def start_paused(scratch, stg, argv, pdir, point, nth=1, extra_env=None):
    """start stg, wait until it pauses at the point.  Returns Popen or None if it finished
    without reaching the point."""
    env = scratch.env({"STGIT_VERIF_DIR": pdir.path, "STGIT_VERIF_POINT": "%s:%d:pause" % (point, nth)})
    if extra_env:
        env.update(extra_env)
    p = subprocess.Popen([stg] + list(argv), cwd=scratch.path, env=env, stdout=subprocess.PIPE,
                         stderr=subprocess.PIPE, text=True)
    reached = os.path.join(pdir.path, point + ".reached")
    t0 = time.time()
    while not os.path.exists(reached):
        if p.poll() is not None:
            return p, False
        if time.time() - t0 > 30:
            p.kill()
            return p, False
        time.sleep(0.002)
    return p, True


def release(pdir, point):
    open(os.path.join(pdir.path, point + ".go"), "w").close()


def finish(p, timeout=60):
    try:
        out, err = p.communicate(timeout=timeout)
    except subprocess.TimeoutExpired:
        p.kill()
        out, err = p.communicate()
        return -999, out, err
    return p.returncode, out, err


def sigint_at(scratch, stg, argv, pdir, point, nth=1):
    """deliver one SIGINT while stg is paused at the point, then let it continue"""
    pdir.clear()
    p, reached = start_paused(scratch, stg, argv, pdir, point, nth)
    if not reached:
        rc, out, err = finish(p)
        return {"reached": False, "exit": rc, "stdout": out, "stderr": err}
    p.send_signal(signal.SIGINT)
    time.sleep(0.05)
    release(pdir, point)
    rc, out, err = finish(p)
    return {"reached": True, "exit": rc, "stdout": out, "stderr": err}


# ----------------------------------------------------------------------------- git shim

SHIM = r"""#!/bin/sh
# PATH shim for fault injection: counts invocations (under flock) and fails the chosen one.
dir="$STGIT_SHIM_DIR"
n=$(flock "$dir/lock" sh -c 'n=$(cat "$0/count" 2>/dev/null || echo 0); n=$((n+1)); echo $n > "$0/count"; echo $n' "$dir")
echo "$n $*" >> "$dir/calls.log"
if [ -n "$STGIT_VERIF_DIR" ]; then echo "$$ git:$1 $n" >> "$STGIT_VERIF_DIR/points.log"; fi
if [ "$n" = "$STGIT_SHIM_FAIL" ]; then
  echo "fatal: injected failure of git invocation $n ($1)" >&2
  exit 128
fi
if [ "$n" = "$STGIT_SHIM_INT_GROUP" ]; then
  # one Ctrl-C for the whole foreground process group: stg gets it, and so does this child, which dies of it
  kill -INT $PPID
  sleep 0.3
  exit 130
fi
if [ "$n" = "$STGIT_SHIM_KILL_BEFORE" ]; then
  kill -KILL $PPID
  exit 137
fi
if [ "$n" = "$STGIT_SHIM_KILL_AFTER" ]; then
  "$STGIT_REAL_GIT" "$@"
  rc=$?
  kill -KILL $PPID
  exit $rc
fi
exec "$STGIT_REAL_GIT" "$@"
"""


class GitShim:
    def __init__(self, scratch):
        self.dir = scratch.path + ".shim"
        shutil.rmtree(self.dir, ignore_errors=True)
        os.makedirs(os.path.join(self.dir, "bin"))
        self.real = shutil.which("git")
        path = os.path.join(self.dir, "bin", "git")
        with open(path, "w") as f:
            f.write(SHIM)
        os.chmod(path, 0o755)

    def env(self, fail=None, kill_before=None, kill_after=None, int_group=None):
        for f in ("count", "calls.log"):
            p = os.path.join(self.dir, f)
            if os.path.exists(p):
                os.remove(p)
        e = {"PATH": os.path.join(self.dir, "bin") + ":" + os.environ["PATH"], "STGIT_SHIM_DIR": self.dir,
             "STGIT_REAL_GIT": self.real}
        if fail is not None:
            e["STGIT_SHIM_FAIL"] = str(fail)
        if kill_before is not None:
            e["STGIT_SHIM_KILL_BEFORE"] = str(kill_before)
        if kill_after is not None:
            e["STGIT_SHIM_KILL_AFTER"] = str(kill_after)
        if int_group is not None:
            e["STGIT_SHIM_INT_GROUP"] = str(int_group)
        return e

    def calls(self):
        p = os.path.join(self.dir, "calls.log")
        if not os.path.exists(p):
            return []
        return [l.split(" ", 1) for l in open(p).read().split("\n") if l]

    def remove(self):
        shutil.rmtree(self.dir, ignore_errors=True)


def full_snapshot(scratch):
    """refs, HEAD, config, index and work-tree content hashes (for snapshot-equality oracles)"""
    refs = scratch.git(["for-each-ref", "--format=%(refname) %(objectname)"]).stdout
    head = scratch.git(["symbolic-ref", "-q", "HEAD"], check=False).stdout.strip() or scratch.rev("HEAD")
    index = scratch.git(["ls-files", "-s"]).stdout
    cfg = scratch.git(["config", "--local", "--list"]).stdout
    wt = {}
    for root, dirs, files in os.walk(scratch.path):
        if ".git" in dirs:
            dirs.remove(".git")
        for f in files:
            p = os.path.join(root, f)
            try:
                wt[os.path.relpath(p, scratch.path)] = open(p, "rb").read()
            except OSError:
                wt[os.path.relpath(p, scratch.path)] = None
    return {"refs": refs, "HEAD": head, "index": index, "config": cfg, "worktree": wt}


def snap_diff(a, b):
    return [k for k in a if a[k] != b[k]]
