"""C06 - the stack log is append-only and keeps every patch safe from git gc

Deciding method: Coq theorems (Properties/C06.v) about the stack / command model
(Model/Stack.v, Model/Cmd.v), tied to the code by the translator (Gen/*.v) and by history-level
differential testing of the extracted model against the real stg, with direct oracles on the
real repository after every command."""

from . import histcheck

LEVEL = "proof"
PROFILES = [('BIG', 2), ('UNDO', 1.5), ('BASIC', 1)]
ORACLES = ['c06', 'log']


def run(ctx):
    histcheck.run_property(ctx, PROFILES, ORACLES, n_quick=40, n_thorough=500, nsteps=32 if ctx.quick() else 45,
                           own_oracle="c06", with_extras=True)


def replay(ctx, path):
    return histcheck.replay_scenario(ctx, path, ORACLES)
