"""C08 - stack manipulation never changes a patch's authorship or message.

Deciding method: Coq theorems (Properties/C08.v) on the stack model: every operation that
re-creates a patch's commit (push_patch, push_tree, refresh of the top patch, spill) copies the
author / message identity of the old commit, and operations that do not create commits keep
the very same commit; an unchanged refresh creates no commit.  Tie: history-level differential
testing (the canonical snapshot compares the author / date / message identity of every patch
commit with the model's), plus an end-to-end direct oracle on commits written with legacy
encodings, odd identities and notes, pushed / floated / sunk / renamed / committed /
uncommitted / undone.  The text side - what re-creating a commit does to the message bytes and
the encoding header - is Model/Encoding.v (message_ex, encode_with, commit_with_options), with
theorems on the shown text and a correspondence that re-creates generated commits with the real
stg under each i18n.commitEncoding and compares header, bytes and git's decoding with the model.
Partial: encodings other than utf-8 / latin-1 / windows-1252 and gpg signing are outside the
model."""

import json
import os
import shutil
import random
import subprocess

from . import common, histcheck, repo

LEVEL = "proof"
PROFILES = [("REORDER", 3), ("BASIC", 1), ("COMMIT", 1)]
ORACLES = ["content", "c02"]

IDENTITIES = [
    ("A U Thor", "author@example.com", "1112911993 +0000"),
    ("Ünï Cödé", "uni@exämple.org", "1700000000 +0545"),
    ("O'Brien, Pat \"Q\"", "pat+tag@example.com", "1234567890 -0930"),
    ("名前", "n@example.jp", "86400 +1400"),
]
MESSAGES = [
    (None, "plain subject\n\nbody line\n\nSigned-off-by: X <x@y>\n".encode()),
    (None, "émoji \U0001f63c subject\n\nmulti\n\nparagraph\n".encode()),
    ("ISO-8859-1", "caf\xe9 latin1 subject\n\nbody \xe9\xe8\n".encode("latin-1")),
    ("ISO-8859-1", b"valid utf8 bytes declared latin1: \xc3\xa9\n"),
    ("windows-1252", "smart \x93quotes\x94\n".encode("latin-1")),
    ("ISO-8859-1", b"c1 range \x93quoted\x94 text\n"),        # bytes 0x80-0x9f under a latin-1 label: F40
    (None, b"subject only"),
    (None, "trailing blank lines\n\nbody\n\n\n".encode()),
]


def make_commit(r, parent, tree, ident, enc, msg, raw_name=None):
    name, email, date = ident
    hdr = "tree %s\nparent %s\n" % (tree, parent)
    who = "%s <%s> %s" % (name, email, date)
    # the identity is written in the commit's declared encoding (ASCII fallback when the name
    # cannot be represented in it)
    codec = {"ISO-8859-1": "latin-1", "windows-1252": "cp1252"}.get(enc, "utf-8")
    try:
        who_b = who.encode(codec)
    except UnicodeEncodeError:
        who_b = ("Fallback Name <fb@example.com> %s" % date).encode()
    if raw_name is not None:
        who_b = raw_name + (" <%s> %s" % (email, date)).encode()
    raw = hdr.encode() + b"author " + who_b + b"\n" + b"committer " + who_b + b"\n"
    if enc:
        raw += ("encoding %s\n" % enc).encode()
    raw += b"\n" + msg
    p = subprocess.run(["git", "hash-object", "-t", "commit", "-w", "--stdin"], cwd=r.path, input=raw,
                       capture_output=True, env=r.env())
    return p.stdout.decode().strip()


def describe(r, oid):
    """decoded author name / e-mail / date and message (as git decodes per the declared encoding)"""
    p = subprocess.run(["git", "log", "-1", "--encoding=UTF-8", "--format=%an%x00%ae%x00%ad%x00%B", "--date=raw", oid],
                       cwd=r.path, capture_output=True, env=r.env())
    return p.stdout


KNOWN_SEEN = set()


def end_to_end(ctx, stg):
    failures = []
    n = 0
    with repo.Scratch("c08") as r:
        r.init_repo()
        # a chain of commits with the tricky identities / encodings, each touching its own file
        parent = r.rev("HEAD")
        k = 0
        c1_commits = set()
        for ident in IDENTITIES:
            for enc, msg in MESSAGES:
                r.write("file%d.txt" % k, "content %d\n" % k)
                r.git(["add", "-A"])
                tree = r.git(["write-tree"]).stdout.strip()
                parent = make_commit(r, parent, tree, ident, enc, msg)
                if enc == "ISO-8859-1" and any(0x80 <= b <= 0x9f for b in msg):
                    c1_commits.add(parent)
                k += 1
                if k >= (8 if ctx.quick() else 28):
                    break
            if k >= (8 if ctx.quick() else 28):
                break
        r.git(["reset", "-q", "--hard", parent])
        r.stg(stg, ["init"])
        p = r.stg(stg, ["uncommit", "-n", str(k), "u"])
        if p.returncode != 0:
            return 0, [{"why": "uncommit failed", "stderr": p.stderr[-300:]}]
        names = r.stg(stg, ["series", "--noprefix", "-a"]).stdout.split()
        want = {}
        c1_names = set()
        for nme in names:
            oid = r.rev("refs/patches/main/" + nme)
            if oid in c1_commits:
                c1_names.add(nme)
            want[nme] = describe(r, oid)
            r.git(["notes", "add", "-m", "note for " + nme, oid])
        ops = [["pop", "-a"], ["push", "-a", "--reverse"], ["float", names[0]], ["sink", names[-1]],
               ["pop", "-n", "3"], ["push", "--set-tree", "-n", "1"], ["push", "-a"], ["hide", names[1]],
               ["unhide", names[1]], ["push", names[1]], ["rename", names[2], "renamed"], ["undo"], ["redo"],
               ["commit", "-n", "2"], ["uncommit", "-n", "2", "back"], ["goto", names[3]], ["push", "-a"]]
        renames = {}
        for op in ops:
            p = r.stg(stg, op)
            n += 1
            if p.returncode not in (0,):
                continue
            cur = r.stg(stg, ["series", "--noprefix", "-a"]).stdout.split()
            if op[0] == "rename" and p.returncode == 0:
                want["renamed"] = want[names[2]]
            for nme in cur:
                base = nme
                if nme.startswith("back"):
                    continue                   # re-derived names after commit/uncommit: compared below by position
                if base not in want:
                    continue
                oid = r.rev("refs/patches/main/" + nme)
                got = describe(r, oid)
                if got != want[base] and base in c1_names and got.split(b"\0")[:3] == want[base].split(b"\0")[:3]:
                    # known finding F40: encoding_rs resolves the label ISO-8859-1 to windows-1252
                    # (WHATWG), so bytes 0x80-0x9f decode to other characters than git's latin-1
                    KNOWN_SEEN.add("F40")
                    want[base] = got
                elif got != want[base]:
                    failures.append({"after": op, "patch": nme, "why": "authorship or message changed",
                                     "before": want[base].decode("utf-8", "replace")[:200],
                                     "after_value": got.decode("utf-8", "replace")[:200]})
                note = r.git(["notes", "show", oid], check=False)
                if note.returncode != 0 or ("note for" not in note.stdout):
                    failures.append({"after": op, "patch": nme, "why": "git note did not follow the patch"})
            if failures:
                break
    return n, failures


def notes_through_conflict(stg):
    """a note (and the authorship / message) follows a patch through a push that stops with a
    conflict, through the resolution and the refresh, through undo and a conflict-free re-push"""
    failures = []
    n = 0
    with repo.Scratch("c08n") as r:
        r.init_repo()
        r.write("f.txt", "line\n")
        r.git(["add", "-A"])
        r.git(["commit", "-q", "-m", "f"])
        r.stg(stg, ["init"])
        idents = {}
        for nm, text, ident in (("p1", "one\n", IDENTITIES[1]), ("p2", "two\n", IDENTITIES[2])):
            r.stg(stg, ["new", "--author", "%s <%s>" % ident[:2], "-m", "subject %s\n\nbody of %s\n" % (nm, nm), nm])
            r.write("f.txt", text)
            r.write(nm + ".txt", nm + "\n")
            r.git(["add", "-A"])
            r.stg(stg, ["refresh"])
            if nm == "p1":
                r.stg(stg, ["pop"])
        # p2 was made on the base: both change f.txt, so pushing p1 on top of p2 conflicts
        for nm in ("p1", "p2"):
            oid = r.rev("refs/patches/main/" + nm)
            r.git(["notes", "add", "-m", "note for " + nm, oid])
            idents[nm] = describe(r, oid)

        def check(after):
            for nm in ("p1", "p2"):
                oid = r.rev("refs/patches/main/" + nm)
                if oid is None:
                    failures.append({"after": after, "patch": nm, "why": "patch ref is gone"})
                    continue
                note = r.git(["notes", "show", oid], check=False)
                if note.returncode != 0 or ("note for " + nm) not in note.stdout:
                    failures.append({"after": after, "patch": nm, "why": "git note did not follow the patch"})
                if describe(r, oid) != idents[nm]:
                    failures.append({"after": after, "patch": nm, "why": "authorship or message changed"})

        steps = [(["push", "p1"], 3), (None, 0), (["refresh"], 0), (["undo"], 0), (["undo", "--hard"], 0),
                 (["pop", "-a"], 0), (["push", "p1"], 0), (["push", "--set-tree", "p2"], 0), (["pop", "-a"], 0)]
        for argv, want in steps:
            if argv is None:
                r.write("f.txt", "resolved\n")
                r.git(["add", "-A"])
                continue
            p = r.stg(stg, argv)
            n += 1
            check(argv)
            if failures:
                break
    return n, failures


def edit_fields(stg):
    """editing commands change only the fields the user asked to change: name / e-mail / date /
    message are compared one by one around `stg edit` and `stg refresh` with explicit options,
    on patches whose author date (and zone) differs from the committer date"""
    failures = []
    n = 0
    fmt = "%an%x00%ae%x00%ad%x00%B"

    def fields(r, nm):
        out = r.git(["log", "-1", "--date=raw", "--format=" + fmt, "refs/patches/main/" + nm]).stdout
        an, ae, ad, msg = out.split("\0", 3)
        return {"name": an, "email": ae, "date": ad, "message": msg.rstrip("\n")}

    with repo.Scratch("c08e") as r:
        r.init_repo()
        r.stg(stg, ["init"])
        for i, ident in enumerate(IDENTITIES[:3]):
            r.write("e%d.txt" % i, "%d\n" % i)
            r.git(["add", "-A"])
            r.stg(stg, ["new", "--author", "%s <%s>" % ident[:2], "--authdate", ident[2],
                        "-m", "subject %d\n\nbody %d\n\nSigned-off-by: S <s@o>" % (i, i), "e%d" % i])
            r.stg(stg, ["refresh"])
        cases = [("e0", ["edit", "--author", "New Name <new@example.org>", "e0"], {"name": "New Name", "email": "new@example.org"}),
                 ("e1", ["edit", "--authname", "Only Name", "e1"], {"name": "Only Name"}),
                 ("e2", ["edit", "--authemail", "only@mail.example", "e2"], {"email": "only@mail.example"}),
                 ("e0", ["edit", "--authdate", "1000000000 +0200", "e0"], {"date": "1000000000 +0200"}),
                 ("e1", ["edit", "-m", "new subject\n\nnew body", "e1"], {"message": "new subject\n\nnew body"}),
                 ("e2", ["edit", "--sign", "e2"], None),
                 ("e2", ["refresh", "--author", "Refresh Er <r@e>"], {"name": "Refresh Er", "email": "r@e"}),
                 ("e1", ["edit", "--authname", "Only Name", "e1"], {})]          # nothing changes
        for nm, argv, want in cases:
            before = fields(r, nm)
            oid_before = r.rev("refs/patches/main/" + nm)
            p = r.stg(stg, argv)
            n += 1
            if p.returncode != 0:
                failures.append({"argv": argv, "why": "editing command failed", "stderr": p.stderr[-200:]})
                continue
            after = fields(r, nm)
            if want is None:
                # --sign adds a trailer: author fields must stay
                want = {"message": after["message"]}
            for k in ("name", "email", "date", "message"):
                exp = want.get(k, before[k])
                if after[k] != exp:
                    failures.append({"argv": argv, "patch": nm, "why": "field %r is %r, expected %r (only %r asked for)"
                                     % (k, after[k], exp, sorted(want))})
            if want == {} and r.rev("refs/patches/main/" + nm) != oid_before:
                failures.append({"argv": argv, "patch": nm, "why": "an edit that changes nothing created a new commit"})
    return n, failures


# ---------------------------------------------------------------- re-creation correspondence
# Model/Encoding.v `recreate` against the real code: a patch commit written with a given
# `encoding` header and message bytes is re-created (pushed onto a different parent) under a
# given i18n.commitEncoding; the header and the message bytes of the new commit - and whether
# the command refuses - must be the model's.

HEADER_LABELS = {"none": [None], "utf8": ["UTF-8", "utf8", "utf-8"],
                 "latin1": ["ISO-8859-1", "latin1", "iso8859-1", "L1", "ISO_8859-1"],
                 "w1252": ["windows-1252", "cp1252", "CP1252"],
                 "unknown": ["x-nonsense-encoding", "EBCDIC-XYZ"]}
CONFIG_LABELS = {"none": None, "utf8": "UTF-8", "latin1": "ISO-8859-1", "w1252": "windows-1252"}
CONFIG_HEADER = {"none": None, "utf8": "UTF-8", "latin1": "ISO-8859-1", "w1252": "windows-1252"}


def gen_message(rng):
    """mostly text; pools: ASCII words, latin-1 letters, C1-range bytes, valid UTF-8 sequences of
    2/3/4 bytes, invalid UTF-8 fragments"""
    kind = rng.choice(["ascii", "latin", "c1", "utf8", "utf8", "invalid", "mixed", "w1252undef"])
    words = []
    for _ in range(rng.randint(1, 5)):
        w = bytes(rng.choice(b"abcdefghijklmnopqrstuvwxyz") for _ in range(rng.randint(1, 6)))
        k = kind if kind != "mixed" else rng.choice(["ascii", "latin", "c1", "utf8", "invalid"])
        if k == "latin":
            w += bytes([rng.randint(0xa0, 0xff)])
        elif k == "c1":
            w += bytes([rng.choice([0x80, 0x82, 0x85, 0x91, 0x92, 0x93, 0x94, 0x96, 0x97, 0x99, 0x9c, 0x9f])])
        elif k == "w1252undef":
            w += bytes([rng.choice([0x81, 0x8d, 0x8f, 0x90, 0x9d])])
        elif k == "utf8":
            w += rng.choice(["\u00e9", "\u00df", "\u20ac", "\u201c", "\u0416", "\u65e5", "\U0001f63c", "\u0081", "\u0093"]).encode()
        elif k == "invalid":
            w += rng.choice([b"\xc3", b"\xe2\x82", b"\xff", b"\xc0\xaf", b"\xed\xa0\x80", b"\xf5\x80\x80\x80"])
        words.append(w)
    subject = b" ".join(words)
    body = b""
    if rng.random() < 0.5:
        body = b"\n\n" + b" ".join(reversed(words)) + b"\n"
    elif rng.random() < 0.5:
        body = b"\n"
    return subject + body


def raw_commit(r, oid):
    p = subprocess.run(["git", "cat-file", "commit", oid], cwd=r.path, capture_output=True, env=r.env())
    head, _, msg = p.stdout.partition(b"\n\n")
    enc = None
    for ln in head.split(b"\n"):
        if ln.startswith(b"encoding "):
            enc = ln[9:].decode("latin-1")
    return enc, msg


def raw_author_name(r, oid):
    p = subprocess.run(["git", "cat-file", "commit", oid], cwd=r.path, capture_output=True, env=r.env())
    for ln in p.stdout.split(b"\n\n")[0].split(b"\n"):
        if ln.startswith(b"author "):
            return ln[7:].rsplit(b" <", 1)[0]
    return None


def gen_name(rng, hk):
    """an author name in the bytes of the commit's declared encoding"""
    base = bytes(rng.choice(b"ABCDEFGHJKLM")) if False else bytes([rng.choice(b"ABCDEFGHJKLM")])
    base += bytes(rng.choice(b"abcdefghijklmnop") for _ in range(rng.randint(2, 6)))
    k = rng.random()
    if k < 0.3:
        return base
    if hk in ("latin1", "w1252"):
        extra = bytes([rng.randint(0xc0, 0xff)]) if k < 0.75 else bytes([rng.choice([0x8a, 0x9a, 0x80, 0x9f, 0x8c])])
        return base + extra + b" " + base[::-1]
    if k < 0.85:
        return base + rng.choice(["\u00e9", "\u00d1", "\u00fc", "\u0161", "\u20ac", "\u540d", "\u0416"]).encode() + b" " + base[::-1]
    if k < 0.93:
        return base + "\U0001f63c".encode()
    return base + rng.choice([b"\xff", b"\xc3", b"\xe2\x82"])          # not UTF-8


def shown_text(r, oid):
    p = subprocess.run(["git", "log", "-1", "--encoding=UTF-8", "--format=%B", oid], cwd=r.path,
                       capture_output=True, env=r.env())
    return p.stdout


def recreate_correspondence(ctx, stg, exe, seed, nbatches, per_batch):
    from . import funcorr
    rng = random.Random(seed)
    failures = []
    stats = {"cases": 0, "refused": 0, "by_header": {}, "by_config": {}, "text_compared": 0, "text_changed_f40": 0,
             "bytes_changed": 0}
    for bi in range(nbatches):
        cfg = list(CONFIG_LABELS)[bi % 4]
        cases = []
        with repo.Scratch("c08r") as r:
            r.init_repo()
            parent = r.rev("HEAD")
            for k in range(per_batch):
                hk = rng.choice(["none", "none", "utf8", "latin1", "latin1", "w1252", "w1252", "unknown"])
                label = rng.choice(HEADER_LABELS[hk])
                msg = gen_message(rng)
                r.write("r%d.txt" % k, "content %d\n" % k)
                r.git(["add", "-A"])
                tree = r.git(["write-tree"]).stdout.strip()
                name = gen_name(rng, hk)
                parent = make_commit(r, parent, tree, IDENTITIES[0], label, msg, raw_name=name)
                cases.append({"header": hk, "label": label, "bytes": msg.hex(), "config": cfg, "commit": parent,
                              "name_bytes": name.hex()})
            r.git(["reset", "-q", "--hard", parent])
            r.stg(stg, ["init"])
            p = r.stg(stg, ["uncommit", "-n", str(per_batch), "r"])
            if p.returncode != 0:
                failures.append({"why": "uncommit failed", "stderr": p.stderr[-300:], "batch": bi})
                continue
            names = r.stg(stg, ["series", "--noprefix", "-a"]).stdout.split()
            for nme, c in zip(names, cases):
                c["name"] = nme
                c["shown_before"] = shown_text(r, c["commit"])
            p = r.stg(stg, ["pop", "-a"])
            if CONFIG_LABELS[cfg] is not None:
                r.git(["config", "i18n.commitEncoding", CONFIG_LABELS[cfg]])
            reqs = [["recreate", c["header"], c["bytes"] or "-", c["config"]] for c in cases]
            model = funcorr.run_model(exe, "/dev/null", reqs)
            nmodel = funcorr.run_model(exe, "/dev/null", [["recreatename", c["header"], c["name_bytes"], c["config"]]
                                                          for c in cases])
            for c, nm in zip(cases, nmodel):
                c["name_model"] = nm
                c["name_shown_before"] = subprocess.run(
                    ["git", "log", "-1", "--encoding=UTF-8", "--format=%an", c["commit"]], cwd=r.path,
                    capture_output=True, env=r.env()).stdout
            # push in reverse order: every patch lands on a parent it did not have
            for c, m in reversed(list(zip(cases, model))):
                stats["cases"] += 1
                stats["by_header"][c["header"]] = stats["by_header"].get(c["header"], 0) + 1
                stats["by_config"][cfg] = stats["by_config"].get(cfg, 0) + 1
                p = r.stg(stg, ["push", c["name"]])
                desc = {k: c[k] for k in ("header", "label", "bytes", "config", "name_bytes")}
                if c["name_model"] == "err" and m != "err":
                    # the author cannot be decoded / encoded: the command refuses whatever the message is
                    stats["refused"] += 1
                    stats["name_refused"] = stats.get("name_refused", 0) + 1
                    if p.returncode == 0:
                        failures.append({**desc, "why": "the model refuses the re-creation (author name), stg push succeeded"})
                    continue
                if m == "err":
                    stats["refused"] += 1
                    if p.returncode == 0:
                        failures.append({**desc, "why": "the model refuses the re-creation, stg push succeeded"})
                    elif "encod" not in p.stderr and "decode" not in p.stderr:
                        failures.append({**desc, "why": "push failed for another reason", "stderr": p.stderr[-200:]})
                    continue
                if p.returncode != 0:
                    failures.append({**desc, "why": "stg push failed, the model re-creates the commit: " + m,
                                     "stderr": p.stderr[-200:]})
                    continue
                oid = r.rev("refs/patches/main/" + c["name"])
                if oid == c["commit"]:
                    failures.append({**desc, "why": "the patch commit was not re-created (harness)"})
                    continue
                enc, out = raw_commit(r, oid)
                _ok, mh, mout, mtxt = m.split(" ")
                mout_b = b"" if mout in ("e", "-") else bytes.fromhex(mout)
                want_label = CONFIG_HEADER[mh] if mh in CONFIG_HEADER else "?"
                # an absent header and a UTF-8 header mean the same to every reader
                norm = lambda l: None if l is None or l.lower() in ("utf-8", "utf8") else l.lower()
                if out != mout_b or norm(enc) != norm(want_label):
                    failures.append({**desc, "why": "re-created commit differs from the model",
                                     "real": {"encoding": enc, "message": out.hex()},
                                     "model": {"encoding": want_label, "message": mout}})
                    continue
                if out != bytes.fromhex(c["bytes"]):
                    stats["bytes_changed"] += 1
                # the author name: bytes as the model writes them, and what git shows
                got_name = raw_author_name(r, oid)
                want_name = bytes.fromhex(c["name_model"].split(" ")[1]) if c["name_model"].split(" ")[1] not in ("e", "-") else b""
                stats["names_compared"] = stats.get("names_compared", 0) + 1
                if got_name != want_name:
                    failures.append({**desc, "why": "the author name of the re-created commit differs from the model",
                                     "real": got_name.hex() if got_name is not None else None, "model": want_name.hex()})
                    continue
                shown = subprocess.run(["git", "log", "-1", "--encoding=UTF-8", "--format=%an", oid], cwd=r.path,
                                       capture_output=True, env=r.env()).stdout
                if shown != c["name_shown_before"]:
                    nb = bytes.fromhex(c["name_bytes"])
                    c1n = any(0x80 <= b <= 0x9f for b in nb)
                    # (git re-encodes the whole commit: one byte iconv cannot decode, in the name or in the
                    # message, and it shows everything raw)
                    undefn = any(b in (0x81, 0x8d, 0x8f, 0x90, 0x9d) for b in nb + bytes.fromhex(c["bytes"]))
                    if c["header"] == "latin1" and c1n:
                        stats["name_changed_f40"] = stats.get("name_changed_f40", 0) + 1
                        KNOWN_SEEN.add("F40")
                    elif c["header"] in ("latin1", "w1252") and cfg in ("latin1", "w1252") and cfg != c["header"] and c1n:
                        pass        # the other single-byte table was asked for
                    elif c["header"] == "w1252" and undefn:
                        pass        # git could not decode the name before
                    elif cfg == "w1252" and any(b in (0x81, 0x8d, 0x8f, 0x90, 0x9d) for b in (got_name or b"") + out):
                        pass        # the new commit carries a byte iconv's CP1252 lacks: git shows it raw
                    elif cfg == "latin1" and any(0x80 <= b <= 0x9f for b in (got_name or b"")):
                        pass        # i18n.commitEncoding=ISO-8859-1: encoding_rs writes windows-1252 bytes (F40's table)
                    else:
                        failures.append({**desc, "why": "the author name git shows changed by the re-creation",
                                         "before": c["name_shown_before"].hex(), "after": shown.hex()})
                        continue
                # the shown text: git's decoding of the new commit against the model's git_text, and
                # against the text shown before (the fidelity clause itself)
                after = shown_text(r, oid)
                if mtxt != "_":
                    stats["text_compared"] += 1
                    mt = "".join(chr(int(x)) for x in mtxt.split(",")) if mtxt else ""
                    if after.decode("utf-8", "surrogateescape").rstrip("\n") != mt.rstrip("\n"):
                        failures.append({**desc, "why": "git shows another text than the model's git_text",
                                         "shown": after.hex(), "model": mtxt})
                        continue
                if after != c["shown_before"]:
                    c1 = any(0x80 <= b <= 0x9f for b in bytes.fromhex(c["bytes"]))
                    single = c["header"] in ("latin1", "w1252")
                    undefined = any(b in (0x81, 0x8d, 0x8f, 0x90, 0x9d) for b in bytes.fromhex(c["bytes"]))
                    cross = single and cfg in ("latin1", "w1252") and cfg != c["header"]
                    if c["header"] == "latin1" and c1 and cfg in ("none", "utf8"):
                        stats["text_changed_f40"] += 1
                        KNOWN_SEEN.add("F40")
                    elif c["header"] == "w1252" and undefined:
                        pass        # git could not decode the message before (iconv CP1252 has no such byte)
                    elif c["header"] == "unknown" or (c["header"] in ("none", "utf8") and cfg in ("latin1", "w1252")):
                        pass        # undecodable label before / the user asked for another commit encoding:
                                    # compare the decoded text below
                    elif cross and c1:
                        pass        # i18n.commitEncoding names the other single-byte table: the label changes
                    else:
                        failures.append({**desc, "why": "the message git shows changed by the re-creation",
                                         "before": c["shown_before"].hex(), "after": after.hex()})
    return stats, failures


def notes_elsewhere(stg):
    """a note follows its patch when the repository keeps its notes where a short-cut would not
    look: the stack lives in a LINKED work tree (refs/notes is in the common git directory, not in
    <git-dir>/worktrees/<name>), or the notes ref exists only in packed-refs"""
    import subprocess
    failures = []
    n = 0
    for variant in ("linked-worktree", "packed-notes-ref"):
        with repo.Scratch("c08w") as r:
            r.init_repo()
            wt = r.path
            if variant == "linked-worktree":
                wt = r.path + ".wt"
                shutil.rmtree(wt, ignore_errors=True)
                r.git(["worktree", "add", "-q", "-b", "topic", wt])
            try:
                def stg_run(argv):
                    return subprocess.run([stg] + argv, cwd=wt, env=r.env(), capture_output=True, text=True,
                                          timeout=60, stdin=subprocess.DEVNULL)

                def git_run(argv):
                    return subprocess.run(["git"] + argv, cwd=wt, env=r.env(), capture_output=True, text=True,
                                          timeout=60)
                branch = "topic" if variant == "linked-worktree" else "main"
                stg_run(["init"])
                for nm in ("q1", "q2", "q3"):
                    stg_run(["new", "-m", "subject %s\n\nbody of %s\n" % (nm, nm), nm])
                    with open(os.path.join(wt, nm + ".txt"), "w") as f:
                        f.write(nm + "\n")
                    git_run(["add", "-A"])
                    stg_run(["refresh"])
                for nm in ("q1", "q2", "q3"):
                    oid = git_run(["rev-parse", "refs/patches/%s/%s" % (branch, nm)]).stdout.strip()
                    git_run(["notes", "add", "-m", "note for " + nm, oid])
                if variant == "packed-notes-ref":
                    git_run(["pack-refs", "--all"])
                    d = os.path.join(wt, ".git", "refs", "notes")
                    if os.path.isdir(d) and not os.listdir(d):
                        os.rmdir(d)
                for argv in (["sink", "q3"], ["float", "q1"], ["pop", "-a"], ["push", "q2", "q1"],
                             ["edit", "-m", "subject q2, reworded", "q2"], ["push", "-a"], ["undo"], ["redo"]):
                    p = stg_run(argv)
                    n += 1
                    if p.returncode != 0:
                        failures.append({"variant": variant, "after": argv, "why": "exit %d: %s" % (p.returncode, p.stderr[-200:])})
                        break
                    for nm in ("q1", "q2", "q3"):
                        oid = git_run(["rev-parse", "--verify", "-q", "refs/patches/%s/%s" % (branch, nm)]).stdout.strip()
                        note = git_run(["notes", "show", oid])
                        if note.returncode != 0 or ("note for " + nm) not in note.stdout:
                            failures.append({"variant": variant, "after": argv, "patch": nm,
                                             "why": "git note did not follow the patch"})
                    if failures:
                        break
            finally:
                if wt != r.path:
                    shutil.rmtree(wt, ignore_errors=True)
    return n, failures


def run(ctx):
    histcheck.run_property(ctx, PROFILES, ORACLES, n_quick=32, n_thorough=500, nsteps=32 if ctx.quick() else 45,
                           own_oracle="c08")
    stg = common.build_stg()
    known = {k["id"]: k for k in histcheck.load_known("C08")}
    n, failures = end_to_end(ctx, stg)
    n2, f2 = notes_through_conflict(stg)
    n3, f3 = edit_fields(stg)
    n4, f4 = notes_elsewhere(stg)
    n += n2 + n3 + n4
    failures += f2 + f3 + f4
    # the re-creation model (Model/Encoding.v) against the real code
    from . import p_c18
    common.coq_make(["ExtractExport.vo"])
    exe = p_c18.build_edriver()
    nb, per = (4, 12) if ctx.quick() else (48, 20)
    rstats, rfail = recreate_correspondence(ctx, stg, exe, ctx.seed, nb, per)
    ctx.coverage["recreate_correspondence"] = rstats
    ctx.coverage["evaluations"] = ctx.coverage.get("evaluations", 0) + rstats["cases"]
    for f in rfail[:3]:
        common.violation(ctx, {"obligation": "correspondence:C08:recreate", "seed": ctx.seed, "batches": nb,
                               "per_batch": per, **f}, found_input=True,
                         hint="recreate-")
    ctx.coverage["end_to_end_operations"] = n
    ctx.coverage["evaluations"] = ctx.coverage.get("evaluations", 0) + n
    for f in failures[:3]:
        common.violation(ctx, {"obligation": "direct-oracle:C08:end-to-end", **f}, found_input=True, hint="e2e-")
    for kid in sorted(KNOWN_SEEN):
        if kid in known and not any(x.startswith(kid + ":") for x in ctx.known):
            ctx.known.append("%s: %s" % (kid, known[kid]["what"]))
    ctx.assumptions.append("Model/Encoding.v covers utf-8 / latin-1 / windows-1252 labels and i18n.commitEncoding "
                           "unset / UTF-8 / ISO-8859-1 / windows-1252; other encoding_rs tables and gpg signing are "
                           "outside the model (partial); git's decoding is obtained with git log --encoding=UTF-8 "
                           "(glibc iconv)")
    ctx.trusted_base += ["extraction of Model/Encoding.v: ExtrOcamlBasic only -> ocaml/emodel.ml, driver ocaml/edriver.ml"]


def replay(ctx, path):
    doc = json.load(open(path))
    if doc.get("obligation") == "correspondence:C08:recreate":
        from . import p_c18
        stg = common.build_stg()
        common.coq_make(["ExtractExport.vo"])
        exe = p_c18.build_edriver()
        _st, fails = recreate_correspondence(ctx, stg, exe, doc["seed"], doc.get("batches", 4), doc.get("per_batch", 12))
        same = [f for f in fails if f.get("bytes") == doc.get("bytes") and f.get("label") == doc.get("label")]
        print(json.dumps(same or fails[:3], indent=1)[:3000])
        return 1 if fails else 0
    return histcheck.replay_scenario(ctx, path, ORACLES)
