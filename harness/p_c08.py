"""C08 - stack manipulation never changes a patch's authorship or message.

Deciding method: Coq theorems (Properties/C08.v) on the stack model: every operation that
re-creates a patch's commit (push_patch, push_tree, refresh of the top patch, spill) copies the
author / message identity of the old commit, and operations that do not create commits keep
the very same commit; an unchanged refresh creates no commit.  Tie: history-level differential
testing (the canonical snapshot compares the author / date / message identity of every patch
commit with the model's), plus an end-to-end direct oracle on commits written with legacy
encodings, odd identities and notes, pushed / floated / sunk / renamed / committed /
uncommitted / undone.  Partial: encoding_rs tables and git's own i18n re-encoding are oracles;
gpg signing is outside the model."""

import json
import os
import subprocess

from . import common, histcheck, repo

LEVEL = "proof"
PROFILES = [("REORDER", 3), ("BASIC", 1), ("COMMIT", 1)]
ORACLES = ["content", "c02"]

IDENTITIES = [
    ("A U Thor", "author@example.com", "1112911993 +0000"),
    ("Ünï Cödé", "uni@exämple.org", "1700000000 +0545"),
    ("O'Brien, Pat \"Q\"", "pat+tag@example.com", "1234567890 -0930"),
    ("名前", "n@example.jp", "86400 +1400"),
]
MESSAGES = [
    (None, "plain subject\n\nbody line\n\nSigned-off-by: X <x@y>\n".encode()),
    (None, "émoji \U0001f63c subject\n\nmulti\n\nparagraph\n".encode()),
    ("ISO-8859-1", "caf\xe9 latin1 subject\n\nbody \xe9\xe8\n".encode("latin-1")),
    ("ISO-8859-1", b"valid utf8 bytes declared latin1: \xc3\xa9\n"),
    ("windows-1252", "smart \x93quotes\x94\n".encode("latin-1")),
    (None, b"subject only"),
    (None, "trailing blank lines\n\nbody\n\n\n".encode()),
]


def make_commit(r, parent, tree, ident, enc, msg):
    name, email, date = ident
    hdr = "tree %s\nparent %s\n" % (tree, parent)
    who = "%s <%s> %s" % (name, email, date)
    # the identity is written in the commit's declared encoding (ASCII fallback when the name
    # cannot be represented in it)
    codec = {"ISO-8859-1": "latin-1", "windows-1252": "cp1252"}.get(enc, "utf-8")
    try:
        who_b = who.encode(codec)
    except UnicodeEncodeError:
        who_b = ("Fallback Name <fb@example.com> %s" % date).encode()
    raw = hdr.encode() + b"author " + who_b + b"\n" + b"committer " + who_b + b"\n"
    if enc:
        raw += ("encoding %s\n" % enc).encode()
    raw += b"\n" + msg
    p = subprocess.run(["git", "hash-object", "-t", "commit", "-w", "--stdin"], cwd=r.path, input=raw,
                       capture_output=True, env=r.env())
    return p.stdout.decode().strip()


def describe(r, oid):
    """decoded author name / e-mail / date and message (as git decodes per the declared encoding)"""
    p = subprocess.run(["git", "log", "-1", "--encoding=UTF-8", "--format=%an%x00%ae%x00%ad%x00%B", "--date=raw", oid],
                       cwd=r.path, capture_output=True, env=r.env())
    return p.stdout


def end_to_end(ctx, stg):
    failures = []
    n = 0
    with repo.Scratch("c08") as r:
        r.init_repo()
        # a chain of commits with the tricky identities / encodings, each touching its own file
        parent = r.rev("HEAD")
        k = 0
        for ident in IDENTITIES:
            for enc, msg in MESSAGES:
                r.write("file%d.txt" % k, "content %d\n" % k)
                r.git(["add", "-A"])
                tree = r.git(["write-tree"]).stdout.strip()
                parent = make_commit(r, parent, tree, ident, enc, msg)
                k += 1
                if k >= (8 if ctx.quick() else 28):
                    break
            if k >= (8 if ctx.quick() else 28):
                break
        r.git(["reset", "-q", "--hard", parent])
        r.stg(stg, ["init"])
        p = r.stg(stg, ["uncommit", "-n", str(k), "u"])
        if p.returncode != 0:
            return 0, [{"why": "uncommit failed", "stderr": p.stderr[-300:]}]
        names = r.stg(stg, ["series", "--noprefix", "-a"]).stdout.split()
        want = {}
        for nme in names:
            oid = r.rev("refs/patches/main/" + nme)
            want[nme] = describe(r, oid)
            r.git(["notes", "add", "-m", "note for " + nme, oid])
        ops = [["pop", "-a"], ["push", "-a", "--reverse"], ["float", names[0]], ["sink", names[-1]],
               ["pop", "-n", "3"], ["push", "--set-tree", "-n", "1"], ["push", "-a"], ["hide", names[1]],
               ["unhide", names[1]], ["push", names[1]], ["rename", names[2], "renamed"], ["undo"], ["redo"],
               ["commit", "-n", "2"], ["uncommit", "-n", "2", "back"], ["goto", names[3]], ["push", "-a"]]
        renames = {}
        for op in ops:
            p = r.stg(stg, op)
            n += 1
            if p.returncode not in (0,):
                continue
            cur = r.stg(stg, ["series", "--noprefix", "-a"]).stdout.split()
            if op[0] == "rename" and p.returncode == 0:
                want["renamed"] = want[names[2]]
            for nme in cur:
                base = nme
                if nme.startswith("back"):
                    continue                   # re-derived names after commit/uncommit: compared below by position
                if base not in want:
                    continue
                oid = r.rev("refs/patches/main/" + nme)
                got = describe(r, oid)
                if got != want[base]:
                    failures.append({"after": op, "patch": nme, "why": "authorship or message changed",
                                     "before": want[base].decode("utf-8", "replace")[:200],
                                     "after_value": got.decode("utf-8", "replace")[:200]})
                note = r.git(["notes", "show", oid], check=False)
                if note.returncode != 0 or ("note for" not in note.stdout):
                    failures.append({"after": op, "patch": nme, "why": "git note did not follow the patch"})
            if failures:
                break
    return n, failures


def notes_through_conflict(stg):
    """a note (and the authorship / message) follows a patch through a push that stops with a
    conflict, through the resolution and the refresh, through undo and a conflict-free re-push"""
    failures = []
    n = 0
    with repo.Scratch("c08n") as r:
        r.init_repo()
        r.write("f.txt", "line\n")
        r.git(["add", "-A"])
        r.git(["commit", "-q", "-m", "f"])
        r.stg(stg, ["init"])
        idents = {}
        for nm, text, ident in (("p1", "one\n", IDENTITIES[1]), ("p2", "two\n", IDENTITIES[2])):
            r.stg(stg, ["new", "--author", "%s <%s>" % ident[:2], "-m", "subject %s\n\nbody of %s\n" % (nm, nm), nm])
            r.write("f.txt", text)
            r.write(nm + ".txt", nm + "\n")
            r.git(["add", "-A"])
            r.stg(stg, ["refresh"])
            if nm == "p1":
                r.stg(stg, ["pop"])
        # p2 was made on the base: both change f.txt, so pushing p1 on top of p2 conflicts
        for nm in ("p1", "p2"):
            oid = r.rev("refs/patches/main/" + nm)
            r.git(["notes", "add", "-m", "note for " + nm, oid])
            idents[nm] = describe(r, oid)

        def check(after):
            for nm in ("p1", "p2"):
                oid = r.rev("refs/patches/main/" + nm)
                if oid is None:
                    failures.append({"after": after, "patch": nm, "why": "patch ref is gone"})
                    continue
                note = r.git(["notes", "show", oid], check=False)
                if note.returncode != 0 or ("note for " + nm) not in note.stdout:
                    failures.append({"after": after, "patch": nm, "why": "git note did not follow the patch"})
                if describe(r, oid) != idents[nm]:
                    failures.append({"after": after, "patch": nm, "why": "authorship or message changed"})

        steps = [(["push", "p1"], 3), (None, 0), (["refresh"], 0), (["undo"], 0), (["undo", "--hard"], 0),
                 (["pop", "-a"], 0), (["push", "p1"], 0), (["push", "--set-tree", "p2"], 0), (["pop", "-a"], 0)]
        for argv, want in steps:
            if argv is None:
                r.write("f.txt", "resolved\n")
                r.git(["add", "-A"])
                continue
            p = r.stg(stg, argv)
            n += 1
            check(argv)
            if failures:
                break
    return n, failures


def edit_fields(stg):
    """editing commands change only the fields the user asked to change: name / e-mail / date /
    message are compared one by one around `stg edit` and `stg refresh` with explicit options,
    on patches whose author date (and zone) differs from the committer date"""
    failures = []
    n = 0
    fmt = "%an%x00%ae%x00%ad%x00%B"

    def fields(r, nm):
        out = r.git(["log", "-1", "--date=raw", "--format=" + fmt, "refs/patches/main/" + nm]).stdout
        an, ae, ad, msg = out.split("\0", 3)
        return {"name": an, "email": ae, "date": ad, "message": msg.rstrip("\n")}

    with repo.Scratch("c08e") as r:
        r.init_repo()
        r.stg(stg, ["init"])
        for i, ident in enumerate(IDENTITIES[:3]):
            r.write("e%d.txt" % i, "%d\n" % i)
            r.git(["add", "-A"])
            r.stg(stg, ["new", "--author", "%s <%s>" % ident[:2], "--authdate", ident[2],
                        "-m", "subject %d\n\nbody %d\n\nSigned-off-by: S <s@o>" % (i, i), "e%d" % i])
            r.stg(stg, ["refresh"])
        cases = [("e0", ["edit", "--author", "New Name <new@example.org>", "e0"], {"name": "New Name", "email": "new@example.org"}),
                 ("e1", ["edit", "--authname", "Only Name", "e1"], {"name": "Only Name"}),
                 ("e2", ["edit", "--authemail", "only@mail.example", "e2"], {"email": "only@mail.example"}),
                 ("e0", ["edit", "--authdate", "1000000000 +0200", "e0"], {"date": "1000000000 +0200"}),
                 ("e1", ["edit", "-m", "new subject\n\nnew body", "e1"], {"message": "new subject\n\nnew body"}),
                 ("e2", ["edit", "--sign", "e2"], None),
                 ("e2", ["refresh", "--author", "Refresh Er <r@e>"], {"name": "Refresh Er", "email": "r@e"}),
                 ("e1", ["edit", "--authname", "Only Name", "e1"], {})]          # nothing changes
        for nm, argv, want in cases:
            before = fields(r, nm)
            oid_before = r.rev("refs/patches/main/" + nm)
            p = r.stg(stg, argv)
            n += 1
            if p.returncode != 0:
                failures.append({"argv": argv, "why": "editing command failed", "stderr": p.stderr[-200:]})
                continue
            after = fields(r, nm)
            if want is None:
                # --sign adds a trailer: author fields must stay
                want = {"message": after["message"]}
            for k in ("name", "email", "date", "message"):
                exp = want.get(k, before[k])
                if after[k] != exp:
                    failures.append({"argv": argv, "patch": nm, "why": "field %r is %r, expected %r (only %r asked for)"
                                     % (k, after[k], exp, sorted(want))})
            if want == {} and r.rev("refs/patches/main/" + nm) != oid_before:
                failures.append({"argv": argv, "patch": nm, "why": "an edit that changes nothing created a new commit"})
    return n, failures


def run(ctx):
    histcheck.run_property(ctx, PROFILES, ORACLES, n_quick=32, n_thorough=500, nsteps=32 if ctx.quick() else 45,
                           own_oracle="c08")
    stg = common.build_stg()
    known = {k["id"]: k for k in histcheck.load_known("C08")}
    n, failures = end_to_end(ctx, stg)
    n2, f2 = notes_through_conflict(stg)
    n3, f3 = edit_fields(stg)
    n += n2 + n3
    failures += f2 + f3
    ctx.coverage["end_to_end_operations"] = n
    ctx.coverage["evaluations"] = ctx.coverage.get("evaluations", 0) + n
    for f in failures[:3]:
        common.violation(ctx, {"obligation": "direct-oracle:C08:end-to-end", **f}, found_input=True, hint="e2e-")
    ctx.assumptions.append("encoding_rs tables, git's i18n.commitEncoding re-encoding and gpg signing are outside the "
                           "model (partial); decoded values are obtained with git log --encoding=UTF-8")


def replay(ctx, path):
    return histcheck.replay_scenario(ctx, path, ORACLES)
