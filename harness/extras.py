"""Scripted scenarios for commands OUTSIDE the Coq model (editor-driven and composite
commands): run on the real stg only, judged by the direct oracles after every step.  A
search, not a proof - but it extends the oracles' reach to refresh -e / edit / squash /
pick / import / fold / rebase."""

import os

from . import histcheck, repo

EDITOR_RENAME = "#!/bin/sh\nsed -i 's/^Patch:.*/Patch: %s/' \"$1\"\n"
EDITOR_RENAME_REWORD = ("#!/bin/sh\nsed -i -e 's/^Patch:.*/Patch: %s/' -e 's/^\\(one\\|two\\|three\\)$/\\1, reworded in the editor/' "
                        "\"$1\"\n")
EDITOR_MSG = "#!/bin/sh\nprintf 'edited subject\\n\\nedited body\\n' > \"$1\"\n"


class Shim:
    def __init__(self, r):
        self.r = r

    def info(self, oid):
        return None


SCENARIOS = {
    "refresh-e-rename": [
        ["stg", "new", "-m", "one", "p1"], ["write", "a.txt", "1\n"], ["stg", "refresh"],
        ["write", "a.txt", "2\n"], ["stg-editor", "rename:renamed", "refresh", "-e"],
        ["stg", "series", "-a"], ["stg", "pop"], ["stg", "push"]],
    "edit-rename-and-message": [
        ["stg", "new", "-m", "one", "p1"], ["stg", "new", "-m", "two", "p2"],
        ["stg-editor", "rename:p1x", "edit", "p1"], ["stg", "edit", "-m", "new message", "p2"],
        ["stg", "edit", "--author", "Some One <so@example.com>", "p1x"], ["stg", "series", "-a"]],
    # one interactive edit that BOTH renames and rewords a patch: in the middle of the applied
    # patches (the patches above must be re-pushed onto the new commit), on top, unapplied, hidden
    "edit-rename-and-reword-in-one-edit": [
        ["stg", "new", "-m", "one", "p1"], ["write", "a.txt", "1\n"], ["stg", "refresh"],
        ["stg", "new", "-m", "two", "p2"], ["write", "b.txt", "1\n"], ["stg", "refresh"],
        ["stg", "new", "-m", "three", "p3"], ["write", "c.txt", "1\n"], ["stg", "refresh"],
        ["stg-editor", "rename+reword:first", "edit", "--edit", "p1"], ["stg", "series", "-a"],
        ["stg-editor", "rename+reword:third", "edit", "--edit", "p3"], ["stg", "pop"],
        ["stg-editor", "rename+reword:second", "edit", "--edit", "p2"], ["stg", "series", "-a"],
        ["stg", "pop", "-a"], ["stg", "push", "-a"], ["stg", "undo"], ["stg", "undo"], ["stg", "undo"]],
    "refresh-p-lower-patch": [
        ["stg", "new", "-m", "one", "p1"], ["write", "a.txt", "1\n"], ["stg", "refresh"],
        ["stg", "new", "-m", "two", "p2"], ["write", "b.txt", "1\n"], ["stg", "refresh"],
        ["write", "c.txt", "1\n"], ["stg", "refresh", "-p", "p1"], ["stg", "pop", "-a"], ["stg", "push", "-a"]],
    "squash": [
        ["stg", "new", "-m", "one", "p1"], ["write", "a.txt", "1\n"], ["stg", "refresh"],
        ["stg", "new", "-m", "two", "p2"], ["write", "b.txt", "1\n"], ["stg", "refresh"],
        ["stg", "new", "-m", "three", "p3"], ["write", "c.txt", "1\n"], ["stg", "refresh"],
        ["stg", "squash", "-m", "squashed", "-n", "sq", "p1", "p3"], ["stg", "series", "-a"], ["stg", "undo"]],
    "pick-own-and-other-branch": [
        ["stg", "new", "-m", "one", "p1"], ["write", "a.txt", "1\n"], ["stg", "refresh"],
        ["stg", "new", "-m", "two", "p2"], ["write", "b.txt", "1\n"], ["stg", "refresh"],
        ["stg", "branch", "--create", "other"], ["stg", "pick", "-B", "main", "p1", "p2"],
        ["stg", "pick", "--noapply", "-B", "main", "p1"], ["stg", "series", "-a"],
        ["stg", "branch", "main"], ["stg", "pick", "..p2"], ["stg", "pick", "--revert", "p1"]],
    "export-import": [
        ["stg", "new", "-m", "one", "p1"], ["write", "a.txt", "1\n"], ["stg", "refresh"],
        ["stg", "new", "-m", "Two Two", "p2"], ["write", "b.txt", "1\n"], ["stg", "refresh"],
        ["stg", "export", "-d", "out"], ["stg", "delete", ".."], ["stg", "import", "--series", "out/series"],
        ["stg", "import", "--replace", "out/p1"], ["stg", "import", "--ignore", "out/p2"],
        ["stg", "series", "-a"]],
    "import-name-collisions": [
        ["stg", "new", "-m", "one", "foo"], ["write", "a.txt", "1\n"], ["stg", "refresh"],
        ["stg", "export", "-d", "out"], ["copy", "out/foo", "out/FOO"], ["stg", "delete", "foo"],
        ["stg", "new", "-m", "other change", "foo"], ["write", "c.txt", "1\n"], ["stg", "refresh"],
        ["stg", "import", "--replace", "out/foo"], ["stg", "series", "-a"], ["stg", "undo"],
        ["stg", "import", "--replace", "out/FOO"], ["stg", "series", "-a"], ["stg", "undo"],
        ["stg", "import", "--ignore", "out/FOO"], ["stg", "series", "-a"], ["stg", "undo"],
        ["stg", "pop"], ["stg", "import", "--replace", "out/foo"], ["stg", "series", "-a"]],
    "fold-and-rebase": [
        ["stg", "new", "-m", "one", "p1"], ["write", "a.txt", "1\n"], ["stg", "refresh"],
        ["stg", "export", "-d", "out"], ["stg", "new", "-m", "two", "p2"], ["stg", "fold", "out/p1"],
        ["git", "checkout", "-q", "-b", "side", "HEAD~2"], ["write", "z.txt", "z\n"], ["git", "add", "-A"],
        ["git", "commit", "-q", "-m", "side"], ["git", "checkout", "-q", "main"],
        ["stg", "rebase", "side"], ["stg", "series", "-a"], ["stg", "undo"]],
    "uncommit-default-names": [
        ["write", "a.txt", "1\n"], ["git", "add", "-A"], ["git", "commit", "-q", "-m", "Fix: the Thing!"],
        ["write", "a.txt", "2\n"], ["git", "add", "-A"], ["git", "commit", "-q", "-m", "fix the thing"],
        ["stg", "uncommit", "-n", "2"], ["stg", "series", "-a"], ["stg", "commit", "-a"],
        ["stg", "uncommit", "--to", "HEAD~2"]],
    "worktree-merge-then-more": [
        # a push that only the work-tree merge can do (the file was renamed underneath), followed
        # by further pushes in the SAME command; also through float / sink / rebase
        ["stg", "new", "-m", "addf", "addf"], ["write", "f.txt", "1\n2\n3\n4\n5\n6\n7\n8\n"], ["stg", "refresh"],
        ["stg", "commit", "-a"],
        ["stg", "new", "-m", "edit", "edit"], ["write", "f.txt", "1\n2\n3\n4\n5\n6\n7\nEIGHT\n"], ["stg", "refresh"],
        ["stg", "new", "-m", "addh", "addh"], ["write", "h.txt", "h\n"], ["stg", "refresh"],
        ["stg", "new", "-m", "addi", "addi"], ["write", "i.txt", "i\n"], ["stg", "refresh"],
        ["stg", "pop", "-a"], ["stg", "new", "-m", "ren", "ren"], ["git", "mv", "f.txt", "g.txt"], ["stg", "refresh"],
        ["stg", "push", "edit", "addh"], ["stg", "series", "-a"], ["stg", "push"], ["stg", "pop", "-a"],
        ["stg", "push", "ren"], ["stg", "push", "-a"], ["stg", "float", "ren"], ["stg", "sink", "ren"],
        ["stg", "undo"], ["stg", "redo"]],
    "many-patches-log-clear": (
        [["stg", "new", "-m", "patch %d" % i, "q%02d" % i] for i in range(1, 23)]
        + [["stg", "pop", "-a"], ["stg", "hide", "q21", "q22"], ["stg", "log", "--clear"], ["stg", "series", "-a"],
           ["stg", "delete", "q20"], ["stg", "undo"], ["stg", "push", "-n", "18"], ["stg", "log", "--clear"],
           ["stg", "pop", "-a"], ["stg", "undo"]]),
    "edit-unapplied-and-hidden": [
        ["stg", "new", "-m", "one", "p1"], ["write", "a.txt", "1\n"], ["stg", "refresh"],
        ["stg", "new", "-m", "two", "p2"], ["write", "b.txt", "1\n"], ["stg", "refresh"],
        ["stg", "new", "-m", "three", "p3"], ["write", "c.txt", "1\n"], ["stg", "refresh"],
        ["stg", "pop", "-n", "2"], ["stg", "hide", "p3"],
        ["stg", "edit", "-m", "two, reworded", "p2"], ["stg", "edit", "-m", "two, reworded again", "p2"],
        ["stg", "edit", "--author", "Some One <so@example.com>", "p3"], ["stg", "edit", "-m", "three again", "p3"],
        ["stg", "delete", "p2"], ["stg", "unhide", "p3"], ["stg", "delete", "p3"], ["stg", "undo"], ["stg", "undo"]],
    # two patches that share ONE commit object (the same patch made twice from the same parent
    # within one clock second): repair must keep the applied one applied and the hidden one hidden,
    # on the consistent stack and after a plain git commit on top; also with the twins the other
    # way round (the applied twin is the one created first)
    "twin-patch-commits": [
        ["stg-at", "1704110400", "new", "-m", "first", "first"], ["write", "a.txt", "a\n"],
        ["stg-at", "1704110400", "refresh"],
        ["stg-at", "1704110400", "new", "-m", "fix", "fix"], ["write", "b.txt", "b\n"],
        ["stg-at", "1704110400", "refresh"], ["stg", "pop"],
        ["stg-at", "1704110400", "new", "-m", "fix", "fix-1"], ["write", "b.txt", "b\n"],
        ["stg-at", "1704110400", "refresh"], ["stg", "hide", "fix"], ["stg", "series", "-a"],
        ["stg", "repair"], ["stg", "series", "-a"],
        ["write", "c.txt", "c\n"], ["git", "commit", "-q", "-m", "extra"], ["stg", "repair"],
        ["stg", "series", "-a"], ["stg", "pop", "-a"], ["stg", "push", "-a"]],
    "twin-patch-commits-unapplied-twin": [
        ["stg-at", "1704110400", "new", "-m", "first", "first"], ["write", "a.txt", "a\n"],
        ["stg-at", "1704110400", "refresh"],
        ["stg-at", "1704110400", "new", "-m", "fix", "fix"], ["write", "b.txt", "b\n"],
        ["stg-at", "1704110400", "refresh"], ["stg", "pop"],
        ["stg-at", "1704110400", "new", "-m", "fix", "fix-1"], ["write", "b.txt", "b\n"],
        ["stg-at", "1704110400", "refresh"], ["stg", "pop"], ["stg", "push", "fix"], ["stg", "hide", "fix-1"],
        ["stg", "repair"], ["stg", "series", "-a"],
        ["write", "c.txt", "c\n"], ["git", "commit", "-q", "-m", "extra"], ["stg", "repair"],
        ["stg", "series", "-a"], ["stg", "undo"], ["stg", "undo"]],
    "new-derived-names-with-hidden": [
        ["stg", "new", "-m", "Fix the thing"], ["stg", "hide", "fix-the-thing"], ["stg", "new", "-m", "Fix the thing"],
        ["stg", "pop"], ["stg", "new", "-m", "fix THE thing"], ["stg", "series", "-a"], ["stg", "unhide", "fix-the-thing"]],
}


class FakeReal:
    """minimal adapter so that the history oracles can be reused on a plain scratch repo"""

    def __init__(self, r, stg):
        from . import hist
        self.inner = hist.RealRepo(r, stg)
        self.r = r

    def commit_info(self, oid):
        return self.inner.commit_info(oid)

    def snapshot(self):
        return self.inner.snapshot()

    def close(self):
        self.inner.close()


def run_scenarios(stg, oracle_names, names=None, tag="ex"):
    failures = []
    n = 0
    for name, steps in SCENARIOS.items():
        if names and name not in names:
            continue
        oracles = histcheck.build_oracles(oracle_names)
        with repo.Scratch(tag) as r:
            r.init_repo()
            r.stg(stg, ["init"])
            real = FakeReal(r, stg)
            try:
                for i, st in enumerate(steps):
                    kind = st[0]
                    ex, err = 0, ""
                    cdesc = {"c": "extra:" + " ".join(st[1:3]), "flags": []}
                    if kind == "write":
                        r.write(st[1], st[2])
                        r.git(["add", "-A"])
                        continue
                    if kind == "copy":
                        import shutil
                        shutil.copy(os.path.join(r.path, st[1]), os.path.join(r.path, st[2]))
                        continue
                    if kind == "git":
                        r.git(st[1:], check=False)
                        # the oracles that compare with the state BEFORE a command must see what plain
                        # git did in between
                        for orc in oracles:
                            if isinstance(orc, histcheck.PrevOracle):
                                orc(real, real.snapshot(), None, i, {"c": "git", "flags": []}, 0, "")
                        continue
                    env = None
                    argv = st[1:]
                    if kind == "stg-at":
                        # fixed author / committer dates: equal content gives the very same commit
                        argv = st[2:]
                        env = {"GIT_AUTHOR_DATE": st[1] + " +0000", "GIT_COMMITTER_DATE": st[1] + " +0000"}
                    if kind == "stg-editor":
                        spec, argv = st[1], st[2:]
                        script = os.path.join(r.home, "editor.sh")
                        body = ((EDITOR_RENAME % spec.split(":", 1)[1]) if spec.startswith("rename:") else
                                (EDITOR_RENAME_REWORD % spec.split(":", 1)[1]) if spec.startswith("rename+reword:")
                                else EDITOR_MSG)
                        with open(script, "w") as f:
                            f.write(body)
                        os.chmod(script, 0o755)
                        env = {"GIT_EDITOR": script, "EDITOR": script, "VISUAL": script}
                    p = r.stg(stg, argv, env=env)
                    n += 1
                    ex, err = p.returncode, p.stderr
                    if "panicked at" in err or ex == 101:
                        ex = "panic"
                    snap = real.snapshot()
                    cdesc = {"c": "logclear" if argv[:2] == ["log", "--clear"] else argv[0], "flags": [], "argv": argv}
                    for orc in oracles:
                        f = orc(real, snap, None, i, cdesc, ex, err)
                        if f:
                            failures.append({"scenario": name, "steps": steps[: i + 1], "why": f, "exit": ex,
                                             "stderr": err[-300:]})
            finally:
                real.close()
    return n, failures
