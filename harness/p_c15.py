"""C15 - patch locators and ranges resolve as documented; an existing name always wins."""

import json
import os

from . import common, funcorr, gate, gen_loc, repo
from .funcorr import hx, unhx, hxlist

LEVEL = "proof"
CONSTRAINTS = ["All", "AllWithAppliedBoundary", "Visible", "VisibleWithAppliedBoundary", "Applied",
               "Unapplied", "Hidden"]


def gen_cases(ctx, n_parse, n_resolve, n_ranges):
    rng = ctx.rng
    reqs, meta = [], []
    for _ in range(n_parse):
        s = gen_loc.range_(rng, gen_loc.NAME_POOL)
        reqs.append(["rangeparse", hx(s)]); meta.append(("rangeparse", s))
        s = gen_loc.locator(rng, gen_loc.NAME_POOL)
        reqs.append(["locparse", hx(s)]); meta.append(("locparse", s))
    for _ in range(n_resolve):
        a, u, h, oids = gen_loc.fake_stack(rng)
        names = a + u + h
        k = rng.random()
        if names and k < 0.3:
            s = rng.choice(names)              # exactly an existing name: must win
        elif names and k < 0.4:
            s = rng.choice(oids)[: rng.choice([3, 4, 5, 7, 12, 40])] + gen_loc.offsets(rng)
        else:
            s = gen_loc.locator(rng, names)
        reqs.append(["resolve", hxlist(a), hxlist(u), hxlist(h), ",".join(oids) or "-", hx(s)])
        meta.append(("resolve", a, u, h, oids, s))
    for _ in range(n_ranges):
        a, u, h, oids = gen_loc.fake_stack(rng)
        names = a + u + h
        rs = [gen_loc.range_(rng, names) for _ in range(rng.choice([1, 1, 1, 2, 2, 3]))]
        c = rng.choice(CONSTRAINTS)
        contig = rng.choice(["0", "0", "1"])
        reqs.append(["resolve_names", hxlist(a), hxlist(u), hxlist(h), ",".join(oids) or "-", c, contig, hxlist(rs)])
        meta.append(("resolve_names", a, u, h, oids, c, contig, rs))
    # boundary stream: open / closed ranges whose ends sit exactly on the applied / unapplied /
    # hidden boundaries, under every constraint
    for _ in range(max(1, n_ranges // 60)):
        a, u, h, oids = gen_loc.fake_stack(rng)
        ends = [l[0] for l in (a, u, h) if l] + [l[-1] for l in (a, u, h) if l]
        ends = list(dict.fromkeys(ends))
        cands = [e + ".." for e in ends] + [".." + e for e in ends] + [".."]
        for x in ends[:3]:
            for y in ends[:4]:
                cands.append(x + ".." + y)
        for rtxt in cands:
            c = rng.choice(CONSTRAINTS)
            for c in (c, "AllWithAppliedBoundary", "VisibleWithAppliedBoundary"):
                contig = rng.choice(["0", "1"])
                reqs.append(["resolve_names", hxlist(a), hxlist(u), hxlist(h), ",".join(oids) or "-", c, contig,
                             hxlist([rtxt])])
                meta.append(("resolve_names", a, u, h, oids, c, contig, [rtxt]))
    return reqs, meta


def direct_oracle(m, impl):
    """Property clauses checked on the implementation's answer alone."""
    if impl in ("PANIC", "MISSING", "BADREQ"):
        return "implementation %s" % impl
    if m[0] == "resolve":
        _, a, u, h, oids, s = m
        names = a + u + h
        if s in names and impl != "ok " + hx(s):
            return "argument %r is exactly an existing patch name but resolved to %r" % (s, impl)
        if impl.startswith("ok ") and unhx(impl[3:]) not in names:
            return "resolved to a name that is not in the stack"
    if m[0] == "resolve":
        # independent reading of `{base}` followed by offset atoms (+n up, ~n down, n = 1 when
        # omitted) over the visible patches: `{base}+1` is the first patch.  Only chains that stay
        # on a patch of the stack after every atom are judged, and only when no prefix of the argument is
        # itself a patch name (a name wins).
        _, a, u, h, oids, s = m
        import re as _re
        mm = _re.fullmatch(r"\{base\}((?:[+~][0-9]{0,6})+)", s)
        if mm:
            atoms = _re.findall(r"([+~])([0-9]*)", mm.group(1))
            prefixes = ["{base}" + "".join(x + y for x, y in atoms[:k]) for k in range(1, len(atoms) + 1)]
            plain_numbers = all(num == "" or (num[0] != "0") for _, num in atoms)
            if atoms[0][0] == "+" and plain_numbers and not any(pf in a + u + h for pf in prefixes):
                vis = a + u
                pos, inside = -1, True
                for sign, num in atoms:
                    k = int(num) if num else 1
                    pos = pos + k if sign == "+" else pos - k
                    if not (0 <= pos < len(vis)):      # never back onto the base itself either
                        inside = False
                if inside and pos >= 0 and impl != "ok " + hx(vis[pos]):
                    return ("%r is patch number %d from the base, %r, but resolved to %r"
                            % (s, pos + 1, vis[pos], unhx(impl[3:]) if impl.startswith("ok ") else impl))
    if m[0] == "resolve_names" and impl.startswith("ok "):
        _, a, u, h, oids, c, contig, rs = m
        out = [unhx(x) for x in impl[3:].split(",")] if impl[3:] != "-" else []
        if len(set(out)) != len(out):
            return "range expansion contains duplicates"
        if any(o not in a + u + h for o in out):
            return "range expansion contains an unknown name"
    if m[0] == "resolve_names" and impl.startswith("ok ") and len(m[7]) == 1:
        # independent statement of the documented expansion for a single range between two
        # plain existing names (or open ends): contiguous interval of the allowed list in stack
        # order; an open end stops at the last applied patch for the *AppliedBoundary
        # constraints when the begin is applied, else at the end of the allowed list
        _, a, u, h, oids, c, contig, rs = m
        out = [unhx(x) for x in impl[3:].split(",")] if impl[3:] != "-" else []
        allowed = {"All": a + u + h, "AllWithAppliedBoundary": a + u + h, "Visible": a + u,
                   "VisibleWithAppliedBoundary": a + u, "Applied": a, "Unapplied": u, "Hidden": h}[c]
        r = rs[0]
        if r.count("..") == 1:
            b, e = r.split("..")
            names = a + u + h
            if (b == "" or b in names) and (e == "" or e in names) and len(set(names)) == len(names):
                if (b == "" or b in allowed) and (e == "" or e in allowed) and allowed:
                    bp = allowed.index(b) if b else 0
                    if e:
                        ep = allowed.index(e)
                    elif c.endswith("AppliedBoundary") and a and bp < len(a):
                        ep = len(a) - 1
                    else:
                        ep = len(allowed) - 1
                    want = allowed[bp:ep + 1] if bp <= ep else list(reversed(allowed[ep:bp + 1]))
                    if out != want:
                        return "range %r under %s expanded to %r, documented expansion is %r" % (r, c, out, want)
    return None


def roundtrip_requests(results, meta):
    """display -> parse round trip on the implementation: parse(display(l)) == l"""
    reqs, origin = [], []
    for (req, impl, model), m in zip(results, meta):
        if m[0] in ("locparse", "rangeparse") and impl.startswith("ok "):
            ast, disp = impl[3:].rsplit(" ", 1)
            reqs.append([m[0], disp])
            origin.append((m, ast, disp))
    return reqs, origin


def end_to_end(ctx, stg, n, driver=None, upath=None):
    """`stg id <loc>` (PatchLocator::resolve_revision, a different code path from resolve_name)
    on a real stack with applied, unapplied AND hidden patches and real commit ids: an existing
    name wins, and whenever the model resolves the locator to a patch, `stg id` prints that
    patch's commit."""
    rng = ctx.rng
    problems, runs = [], 0
    with repo.Scratch("c15") as r:
        r.init_repo()
        r.stg(stg, ["init"])
        names = ["p0", "5", "abc123", "-1", "p+1", "0", "h1", "h2"]
        for nm in names:
            p = r.stg(stg, ["new", "-m", "m " + nm, nm if not nm.startswith("-") else "\\" + nm])
            if p.returncode != 0:
                problems.append({"argv": ["new", nm], "exit": p.returncode, "stderr": p.stderr[-300:]})
        r.stg(stg, ["pop", "-n", "4"])
        r.stg(stg, ["hide", "h1", "h2"])
        applied = r.stg(stg, ["series", "--noprefix", "-A"]).stdout.split()
        unapplied = r.stg(stg, ["series", "--noprefix", "-U"]).stdout.split()
        hidden = r.stg(stg, ["series", "--noprefix", "-H"]).stdout.split()
        ids = {}
        for nm in names:
            ids[nm] = r.rev("refs/patches/main/" + nm)
        for nm in names:
            arg = nm if not nm.startswith("-") else "\\" + nm
            p = r.stg(stg, ["id", "--", arg])
            runs += 1
            if p.returncode != 0 or p.stdout.strip() != ids[nm]:
                problems.append({"argv": ["id", "--", arg], "exit": p.returncode, "stdout": p.stdout.strip(),
                                 "expected": ids[nm], "why": "existing patch name did not win"})
        fixed = ["^", "^0", "^1", "^2", "^~", "^~1", "^+1", "^-1", "^-2", "@", "@~", "@~2", "@+1", "@+3", "{base}+1",
                 "{base}+4", "0", "3", "-2", "p0+1", "p0+5", "p+1~", "h1~", "h1+1", "h2~3", "5~", "abc123+2"]
        locs = fixed + [gen_loc.locator(rng, names) for _ in range(n)]
        reqs = []
        keep = []
        for loc in locs:
            if not loc or "\x00" in loc:
                continue
            if loc.startswith("-") and not loc.startswith("\\"):
                loc = "\\" + loc
            keep.append(loc)
            mloc = loc[1:] if loc.startswith("\\-") else loc
            reqs.append(["resolve", hxlist(applied), hxlist(unapplied), hxlist(hidden),
                         ",".join(ids[x] for x in applied + unapplied + hidden), hx(mloc)])
        model = funcorr.run_model(driver, upath, reqs) if driver else [None] * len(reqs)
        for loc, m in zip(keep, model):
            p = r.stg(stg, ["id", "--", loc])
            runs += 1
            if p.returncode not in (0, 1, 2) or "panicked" in p.stderr:
                problems.append({"argv": ["id", "--", loc], "exit": p.returncode, "stderr": p.stderr[-300:]})
            elif m and m.startswith("ok "):
                want = ids.get(funcorr.unhx(m.split(" ")[1]))
                if p.returncode != 0 or p.stdout.strip() != want:
                    got_name = [k for k, v in ids.items() if v == p.stdout.strip()]
                    problems.append({"argv": ["id", "--", loc], "exit": p.returncode, "stdout": p.stdout.strip(),
                                     "why": "stg id resolves %r to %r, the locator rules (and resolve_name) give %r"
                                            % (loc, got_name or p.stderr.strip()[-80:], funcorr.unhx(m.split(" ")[1])),
                                     "stack": {"applied": applied, "unapplied": unapplied, "hidden": hidden}})
    return runs, problems


def run(ctx):
    stg = common.build_stg()
    broken = gate.coq_gate(ctx)
    driver = common.build_driver()
    upath = funcorr.unicode_dump(stg)
    if ctx.quick():
        n_parse, n_resolve, n_ranges, n_e2e = 3000, 6000, 5000, 40
    else:
        n_parse, n_resolve, n_ranges, n_e2e = 60000, 150000, 120000, 600
    reqs, meta = gen_cases(ctx, n_parse, n_resolve, n_ranges)
    results = funcorr.run_both(stg, driver, upath, reqs)
    disagreements, oracle_failures = [], []
    distinct = set()
    kinds = {}
    outcome_kinds = {}
    for (req, impl, model), m in zip(results, meta):
        kinds[m[0]] = kinds.get(m[0], 0) + 1
        outcome_kinds[impl.split(" ")[0] + (" " + impl.split(" ")[1] if impl.startswith("err ") else "")] = \
            outcome_kinds.get(impl.split(" ")[0] + (" " + impl.split(" ")[1] if impl.startswith("err ") else ""), 0) + 1
        distinct.add((req[0], impl))
        if impl != model:
            disagreements.append({"request": req, "decoded": list(m), "impl": impl, "model": model})
        why = direct_oracle(m, impl)
        if why:
            oracle_failures.append({"request": req, "decoded": list(m), "impl": impl, "why": why})
    rt_reqs, origin = roundtrip_requests(results, meta)
    rt = funcorr.run_impl(stg, rt_reqs)
    for out, (m, ast, disp) in zip(rt, origin):
        if not out.startswith("ok ") or out[3:].rsplit(" ", 1)[0] != ast:
            oracle_failures.append({"request": [m[0], disp], "decoded": list(m), "impl": out,
                                    "why": "display(parse(s)) does not parse back to the same locator", "ast": ast})
    e2e_runs, e2e_problems = end_to_end(ctx, stg, n_e2e, driver, upath)
    corpus = run_corpus(stg, driver, upath)

    ctx.obligations += 2
    if not disagreements and not corpus:
        ctx.discharged += 1
    if not e2e_problems:
        ctx.discharged += 1
    ctx.coverage.update({
        "evaluations": len(reqs) + len(rt_reqs) + e2e_runs,
        "distinct_nontrivial": len(distinct),
        "rule": "grammar-directed locators/ranges x fake stacks with ambiguous names (harness/gen_loc.py, seed %d); "
                "distinct = distinct (function, implementation result)" % ctx.seed,
        "input_distribution": kinds,
        "outcome_distribution": outcome_kinds,
        "samples": [{"request": r, "impl": i, "model": mo} for (r, i, mo) in results[:2]]
                   + [{"request": r, "impl": i, "model": mo} for (r, i, mo) in results[2 * n_parse:2 * n_parse + 3]]
                   + [{"request": r, "impl": i, "model": mo} for (r, i, mo) in results[-2:]],
        "traces_validated_against_impl": len(reqs),
        "roundtrip_checked": len(rt_reqs),
        "end_to_end_stg_id": e2e_runs,
        "disagreements": len(disagreements),
    })
    ctx.assumptions += [
        "gix::hash::Prefix::from_hex accepts 4..=40 hex digits and cmp_oid is prefix comparison on the hex form",
        "winnow alt/opt/repeat semantics (Backtrack vs Cut) transcribed by hand in Model/Locator.v",
    ]
    for f in oracle_failures[:3]:
        common.violation(ctx, {"obligation": "direct-oracle:C15", "case": f}, found_input=True, hint="oracle-")
    for d in (disagreements + corpus)[:3]:
        common.violation(ctx, {"obligation": "correspondence:C15:function", "case": d},
                         found_input=(d["impl"] == "PANIC"), hint="corr-")
    for pb in e2e_problems[:3]:
        common.violation(ctx, {"obligation": "correspondence:C15:end-to-end", "case": pb}, found_input=True, hint="e2e-")
    if broken and not ctx.violations:
        common.violation(ctx, {"obligation": "Properties/C15.v", "broken": broken,
                               "searched": "function-level, round-trip and end-to-end checks found no failing input"},
                         found_input=False, hint="proof-")
    elif broken:
        ctx.coverage["broken_obligations"] = broken


def run_corpus(stg, driver, upath):
    path = os.path.join(common.VERIF, "corpus", "C15.jsonl")
    if not os.path.exists(path):
        return []
    reqs = [json.loads(l)["request"] for l in open(path) if l.strip()]
    out = []
    if reqs:
        for req, impl, model in funcorr.run_both(stg, driver, upath, reqs):
            if impl != model or impl == "PANIC":
                out.append({"request": req, "impl": impl, "model": model})
    return out


def replay(ctx, path):
    doc = json.load(open(path))
    case = doc.get("case", {})
    stg = common.build_stg()
    if "request" in case:
        impl = funcorr.run_impl(stg, [case["request"]])[0]
        print("impl:", impl)
        return 1 if (impl == "PANIC" or case.get("model") not in (None, impl)) else 0
    print("nothing replayable in", path)
    return 1
