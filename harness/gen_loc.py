"""Grammar-directed generators for patch locators / ranges and fake stacks (C15)."""

NAME_POOL = ["p0", "p1", "p2", "fix", "5", "0", "12", "abc123", "abcd", "deadbeef", "-1", "+1", "p+1", "p+",
             "a-b", "x.y", "été", "P0", "fix2", "-", "+", "1a", "beef", "0001", "{base}+1", "@+1",
             "--", "p0+1", "abcde", "00000000"]
BIGS = ["9223372036854775807", "9223372036854775808", "18446744073709551615", "99999999999999999999", "007", "0"]


def num(rng):
    k = rng.random()
    if k < 0.7:
        return str(rng.randint(0, 6))
    if k < 0.85:
        return rng.choice(BIGS)
    return str(rng.randint(0, 40))


def offsets(rng):
    n = rng.choice([0, 0, 0, 1, 1, 2, 3])
    out = ""
    for _ in range(n):
        out += rng.choice("+~")
        if rng.random() < 0.6:
            out += num(rng)
    return out


def locator(rng, names):
    k = rng.random()
    if k < 0.40:
        base = rng.choice(names) if names and rng.random() < 0.8 else rng.choice(NAME_POOL)
    elif k < 0.48:
        base = "@"
    elif k < 0.54:
        base = "{base}"
    elif k < 0.62:
        base = "~" + (num(rng) if rng.random() < 0.6 else "")
    elif k < 0.70:
        base = "^" + (rng.choice(["", "-"]) + num(rng) if rng.random() < 0.6 else "")
    elif k < 0.80:
        base = rng.choice(["+", "-"]) + (num(rng) if rng.random() < 0.7 else "")
    elif k < 0.88:
        base = num(rng)
    elif k < 0.94:
        base = "".join(rng.choice("0123456789abcdefABCDEF") for _ in range(rng.choice([3, 4, 5, 8, 40, 41])))
    else:
        base = "".join(rng.choice("ab.-+~^@{}\\ x:9") for _ in range(rng.randint(0, 5)))
    return base + offsets(rng)


def range_(rng, names):
    k = rng.random()
    if k < 0.45:
        return locator(rng, names)
    b = locator(rng, names) if rng.random() < 0.75 else ""
    e = locator(rng, names) if rng.random() < 0.75 else ""
    return b + ".." + e


def hexoid(rng, prefix=None):
    s = "".join(rng.choice("0123456789abcdef") for _ in range(40))
    if prefix:
        s = (prefix + s)[:40]
    return s


def fake_stack(rng):
    """(applied, unapplied, hidden, oids) with names from the ambiguous pool"""
    n = rng.choice([0, 1, 2, 3, 4, 6, 9])
    pool = NAME_POOL[:]
    rng.shuffle(pool)
    names = pool[:n]
    # avoid exact case twins inside one stack? they are legal inputs for resolve; keep.
    ka = rng.randint(0, n)
    ku = rng.randint(ka, n)
    a, u, h = names[:ka], names[ka:ku], names[ku:]
    oids = []
    for nm in a + u + h:
        # sometimes make the oid start with a hex-looking name from the pool
        k = rng.random()
        if k < 0.25:
            oids.append(hexoid(rng, rng.choice(["abc123", "abcd", "deadbeef", "beef", "0001", "0000", "12", "5555"])))
        else:
            oids.append(hexoid(rng))
    return a, u, h, oids
