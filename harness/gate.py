"""The proof gate shared by all checks: regenerate Gen/*.v from /repo, build the Coq
targets of one property, scan for forbidden constructs, collect Print Assumptions."""

import os
import re

from . import common
from . import translate

ALLOWED_ASSUMPTIONS = ("Closed under the global context",)


def coq_gate(ctx, prop_file=None, need_extract=True):
    """Returns list of broken obligations (strings).  Fills ctx.obligations/discharged
    and ctx.trusted_base."""
    prop_file = prop_file or ctx.prop
    broken = []

    # 1. translator: Gen/*.v from the current working tree of /repo
    tr_ok, tr_msg = translate.regenerate()
    ctx.coverage["translator"] = tr_msg
    if not tr_ok:
        broken.append("translator: " + tr_msg)

    # 2. forbidden constructs anywhere in the development
    bad = common.forbidden_scan()
    if bad:
        broken.append("forbidden constructs: %r" % (bad[:5],))

    # 3. full .vo build of this property's cone (+ extraction)
    targets = ["Properties/%s.vo" % prop_file]
    if need_extract:
        targets.append("Extract.vo")
    ok, text = common.coq_make(targets)
    thms = common.theorem_names(prop_file)
    ctx.obligations += len(thms)
    if not ok:
        errs = re.findall(r"(?m)^File \"\./([^\"]+)\", line (\d+).*\n(?:.*\n)?Error:(.*(?:\n .*)*)", text)
        short = "; ".join("%s:%s:%s" % (f, l, " ".join(m.split())[:160]) for f, l, m in errs[:4])
        broken.append("coq build failed: " + (short or text[-600:]))
        prop_vo = os.path.join(common.COQ, "Properties", prop_file + ".vo")
        if not os.path.exists(prop_vo) or os.path.getmtime(prop_vo) < os.path.getmtime(prop_vo[:-1]):
            ctx.coverage["coq_log_tail"] = text[-1500:]
            return broken

    # 4. assumptions of each property theorem
    ok2, assum, out = common.print_assumptions(prop_file)
    if not ok2:
        broken.append("Properties/%s.v does not compile" % prop_file)
        return broken
    good = 0
    for t in thms:
        a = assum.get(t, "MISSING (no Print Assumptions for this theorem)")
        if a.strip() in ALLOWED_ASSUMPTIONS:
            good += 1
        else:
            broken.append("theorem %s depends on: %s" % (t, " ".join(a.split())[:300]))
    ctx.discharged += good
    ctx.coverage["theorems"] = thms
    ctx.coverage["print_assumptions"] = {t: " ".join(assum.get(t, "").split())[:200] for t in thms}
    ctx.trusted_base += [
        "Coq 8.16.1 kernel (coqc, full .vo build; vm_compute used, native_compute not used)",
        "Print Assumptions for every theorem of Properties/%s.v: %s" % (
            prop_file, "Closed under the global context" if good == len(thms) else "see print_assumptions"),
        "translator /verif/translator (syn-based) -> coq/Gen/*.v",
        "extraction: ExtrOcamlBasic only (Extract Inductive bool, option, unit, list, prod, sumbool, sumor; "
        "Extract Inlined Constant fst, snd, andb, orb, negb ... as in the stdlib plugin file); N/Z/nat stay inductive",
        "OCaml 4.13.1 ocamlfind ocamlopt for ocaml/driver.ml",
        "python3 harness /verif/harness (generators, comparison, git/stg drivers)",
    ]
    return broken
