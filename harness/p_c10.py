"""C10 - uncommitted local changes and untracked files are never silently lost.

Deciding method: Coq theorem about the two-way merge model (locally modified files are kept or
the check-out refuses), ties to the source (discard_changes only under --hard; hard checkouts
only in reset --hard and behind fold's cleanliness check; cleanliness pre-checks present),
history-level differential testing with dirty work trees (--keep and not), and a direct oracle
comparing the content of every modified / untracked file before and after each command."""

import itertools
import os

from . import common, histcheck, repo

LEVEL = "proof"
PROFILES = [("DIRTY", 4), ("BASIC", 1)]
ORACLES = ["dirty"]


def dirty_probes(ctx, stg):
    """commands outside the model that check out or reset: a locally modified (unstaged) file
    and an untracked file must survive, whether the command succeeds or refuses"""
    good = ("folded\n\n---\n\ndiff --git a/a.txt b/a.txt\n--- a/a.txt\n+++ b/a.txt\n@@ -1 +1 @@\n-one\n+ONE\n")
    bad = good.replace("-one", "-not there")
    cmds = []
    for diff, opt in itertools.product((("good", good), ("bad", bad)), ([], ["--threeway"], ["--base", "HEAD~1"],
                                                                         ["--base", "HEAD"])):
        cmds.append(("fold " + diff[0] + " " + " ".join(opt), diff[1], ["fold"] + opt + ["PATCHFILE"]))
    for extra in (["pop"], ["push"], ["goto", "p1"], ["float", "p1"], ["sink", "p2"], ["delete", "p2"], ["pick", "--fold", "p1"],
                  ["rebase", "HEAD~2"], ["sync", "-B", "other", "p2"], ["undo"], ["reset", "refs/stacks/main~1"],
                  ["squash", "-m", "sq", "p1", "p2"], ["clean"], ["spill"], ["refresh", "--spill"]):
        cmds.append((" ".join(extra), good, extra))
    failures = []
    n = 0
    for label, diff, argv in cmds:
        with repo.Scratch("c10d") as r:
            r.init_repo()
            r.write("a.txt", "one\n")
            r.write("notes.txt", "tracked notes\n")
            r.git(["add", "-A"])
            r.git(["commit", "-q", "-m", "files"])
            r.stg(stg, ["init"])
            r.stg(stg, ["new", "-m", "p1", "p1"])
            r.write("b.txt", "b\n")
            r.git(["add", "-A"])
            r.stg(stg, ["refresh"])
            r.stg(stg, ["new", "-m", "p2", "p2"])
            r.write("c.txt", "c\n")
            r.git(["add", "-A"])
            r.stg(stg, ["refresh"])
            r.stg(stg, ["branch", "--clone", "other"])
            r.git(["checkout", "-q", "main"])
            pf = os.path.join(r.home, "x.patch")
            open(pf, "w").write(diff)
            # the local changes: an unstaged edit of a tracked file no patch touches + an untracked file
            r.write("notes.txt", "tracked notes\nPRECIOUS unstaged edit\n")
            r.write("untracked.txt", "PRECIOUS untracked\n")
            p = r.stg(stg, [pf if a == "PATCHFILE" else a for a in argv])
            n += 1
            probs = []
            try:
                if "PRECIOUS unstaged edit" not in r.read("notes.txt"):
                    probs.append("the unstaged edit of notes.txt is gone")
            except OSError:
                probs.append("notes.txt is gone")
            if not os.path.exists(os.path.join(r.path, "untracked.txt")) or \
                    r.read("untracked.txt") != "PRECIOUS untracked\n":
                probs.append("untracked.txt was removed or overwritten")
            if probs:
                failures.append({"obligation": "direct-oracle:C10:dirty-probe", "command": label, "argv": argv,
                                 "exit": p.returncode, "problems": probs, "stderr": p.stderr[-300:]})
    # a push whose first patch needs the work-tree merge (the file was renamed underneath) and
    # whose second patch touches a locally modified file: the command must fail AND the roll-back of
    # the merged content must leave the local modification alone
    for argv in (["push", "--keep", "q1", "q2"], ["push", "--keep", "-a"], ["float", "--keep", "q1", "q2"]):
        with repo.Scratch("c10r") as r:
            r.init_repo()
            r.write("a.txt", "1\n2\n3\n4\n5\n6\n7\n8\n")
            r.write("notes.txt", "tracked notes\n")
            r.git(["add", "-A"])
            r.git(["commit", "-q", "-m", "files"])
            r.stg(stg, ["init"])
            r.stg(stg, ["new", "-m", "q1", "q1"])
            r.write("a.txt", "1\n2\n3\n4\n5\n6\n7\nEIGHT\n")
            r.git(["add", "-A"])
            r.stg(stg, ["refresh"])
            r.stg(stg, ["new", "-m", "q2", "q2"])
            r.write("notes.txt", "tracked notes\nfrom q2\n")
            r.git(["add", "-A"])
            r.stg(stg, ["refresh"])
            r.stg(stg, ["pop", "-a"])
            r.stg(stg, ["new", "-m", "ren", "ren"])
            r.git(["mv", "a.txt", "b.txt"])
            r.stg(stg, ["refresh"])
            r.write("notes.txt", "tracked notes\nPRECIOUS unstaged edit\n")
            p = r.stg(stg, argv)
            n += 1
            try:
                kept = "PRECIOUS unstaged edit" in r.read("notes.txt")
            except OSError:
                kept = False
            if not kept:
                failures.append({"obligation": "direct-oracle:C10:dirty-probe", "command": "rename + " + " ".join(argv),
                                 "argv": argv, "exit": p.returncode,
                                 "problems": ["the unstaged edit of notes.txt is gone"], "stderr": p.stderr[-300:]})
    ctx.obligations += 1
    if not failures:
        ctx.discharged += 1
    for f in failures[:4]:
        common.violation(ctx, f, found_input=True, hint="probe-")
    ctx.coverage["dirty_probes"] = n
    ctx.coverage["evaluations"] = ctx.coverage.get("evaluations", 0) + n


def run(ctx):
    dirty_probes(ctx, common.build_stg())
    # stack arrangement x kind of local change x command, judged on the real repository
    from . import dirtmatrix
    dirtmatrix.check(ctx, common.build_stg(), "C10", "c10m")
    histcheck.run_property(ctx, PROFILES, ORACLES, n_quick=56, n_thorough=900, nsteps=32 if ctx.quick() else 45,
                           own_oracle="c10",
                           extra_trusted=["merge-recursive's refusal to overwrite locally modified files during the "
                                          "work-tree merge of a push is outside the model (judged by the direct oracle "
                                          "only); untracked files are judged by the direct oracle only (partial)"])


def replay(ctx, path):
    import json
    doc = json.load(open(path))
    if str(doc.get("obligation", "")).endswith("dirt-matrix"):
        from . import dirtmatrix
        return dirtmatrix.replay(ctx, doc)
    if str(doc.get("obligation", "")).startswith("direct-oracle:C10:dirty-probe"):
        dirty_probes(ctx, common.build_stg())
        print("dirty probes: %d violation(s)" % len(ctx.violations))
        return 1 if ctx.violations else 0
    return histcheck.replay_scenario(ctx, path, ORACLES)
