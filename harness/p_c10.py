"""C10 - uncommitted local changes and untracked files are never silently lost.

Deciding method: Coq theorem about the two-way merge model (locally modified files are kept or
the check-out refuses), ties to the source (discard_changes only under --hard; hard checkouts
only in reset --hard and behind fold's cleanliness check; cleanliness pre-checks present),
history-level differential testing with dirty work trees (--keep and not), and a direct oracle
comparing the content of every modified / untracked file before and after each command."""

import os

from . import histcheck

LEVEL = "proof"
PROFILES = [("DIRTY", 4), ("BASIC", 1)]
ORACLES = ["dirty"]


def run(ctx):
    histcheck.run_property(ctx, PROFILES, ORACLES, n_quick=56, n_thorough=900, nsteps=32 if ctx.quick() else 45,
                           own_oracle="c10",
                           extra_trusted=["merge-recursive's refusal to overwrite locally modified files during the "
                                          "work-tree merge of a push is outside the model (judged by the direct oracle "
                                          "only); untracked files are judged by the direct oracle only (partial)"])


def replay(ctx, path):
    return histcheck.replay_scenario(ctx, path, ORACLES)
