"""Shared plumbing for the checks: builds (cargo / coq / ocaml), evidence, verdicts.

Everything here is plain python3 stdlib.  All scratch state lives under /verif/.cache
(never /tmp)."""

import fcntl
import hashlib
import json
import os
import random
import re
import shutil
import subprocess
import sys
import time

VERIF = os.path.dirname(os.path.dirname(os.path.abspath(__file__)))
REPO = os.environ.get("VERIF_REPO", "/repo")
CACHE = os.path.join(VERIF, ".cache")
COQ = os.path.join(VERIF, "coq")
OCAML = os.path.join(VERIF, "ocaml")
EVIDENCE = os.path.join(VERIF, "evidence")
REPLAYS = os.path.join(CACHE, "replays")
GUARD = "stgit_verif"
DEFAULT_SEED = 20260930

os.makedirs(CACHE, exist_ok=True)

OFFLINE_ENV = {
    "CARGO_NET_OFFLINE": "true",
    "GOPROXY": "off",
    "PIP_NO_INDEX": "1",
}


def log(*a):
    print("[verif]", *a, file=sys.stderr, flush=True)


class Lock:
    """flock on a file in .cache so that concurrently started checks serialise builds."""

    def __init__(self, name):
        self.path = os.path.join(CACHE, name + ".lock")

    def __enter__(self):
        self.f = open(self.path, "w")
        fcntl.flock(self.f, fcntl.LOCK_EX)
        return self

    def __exit__(self, *a):
        fcntl.flock(self.f, fcntl.LOCK_UN)
        self.f.close()


def run(cmd, cwd=None, env=None, timeout=None, input=None, check=False, text=True):
    e = dict(os.environ)
    e.update(OFFLINE_ENV)
    if env:
        e.update(env)
    return subprocess.run(
        cmd,
        cwd=cwd,
        env=e,
        timeout=timeout,
        input=input,
        stdout=subprocess.PIPE,
        stderr=subprocess.PIPE,
        text=text,
        check=check,
    )


# ----------------------------------------------------------------------------- cargo


def target_dir():
    return os.path.join(CACHE, "target")


def build_stg(release=False):
    """Build /repo's current working tree with the hooks enabled.  Returns the path of
    the binary.  cargo's fingerprinting makes this a no-op when nothing changed."""
    with Lock("cargo"):
        cmd = ["cargo", "build", "--offline", "--quiet"]
        if release:
            cmd.append("--release")
        t0 = time.time()
        p = run(
            cmd,
            cwd=REPO,
            env={"RUSTFLAGS": "--cfg " + GUARD, "CARGO_TARGET_DIR": target_dir()},
            timeout=1800,
        )
        if p.returncode != 0:
            raise BuildError("cargo build failed:\n" + p.stderr[-4000:])
        log("cargo build (%s) %.1fs" % ("release" if release else "debug", time.time() - t0))
    return os.path.join(target_dir(), "release" if release else "debug", "stg")


class BuildError(Exception):
    pass


# ----------------------------------------------------------------------------- coq

FORBIDDEN = re.compile(
    r"\b(Admitted|admit|Axiom|Axioms|Parameter|Parameters|Conjecture|Conjectures)\b"
    r"|Unset\s+Guard|bypass_check|type-in-type|impredicative-set|Unset\s+Universe\s+Checking"
    r"|Unset\s+Positivity"
)


def strip_coq_comments(text):
    out = []
    depth = 0
    i = 0
    while i < len(text):
        if text.startswith("(*", i):
            depth += 1
            i += 2
        elif text.startswith("*)", i) and depth > 0:
            depth -= 1
            i += 2
        else:
            if depth == 0:
                out.append(text[i])
            i += 1
    return "".join(out)


def coq_sources():
    res = []
    for sub in ("Model", "Gen", "Proofs", "Properties"):
        d = os.path.join(COQ, sub)
        if os.path.isdir(d):
            for f in sorted(os.listdir(d)):
                if f.endswith(".v"):
                    res.append(os.path.join(sub, f))
    for f in ("Extract.v", "ExtractBranch.v", "ExtractExport.v"):
        if os.path.exists(os.path.join(COQ, f)):
            res.append(f)
    return res


def forbidden_scan():
    """Return list of (file, token) for forbidden constructs anywhere in the development
    (comments stripped).  `Variable`/`Hypothesis` outside a Section are also flagged."""
    bad = []
    for rel in coq_sources():
        text = strip_coq_comments(open(os.path.join(COQ, rel)).read())
        for m in FORBIDDEN.finditer(text):
            bad.append((rel, m.group(0)))
        depth = 0
        for line in text.split("\n"):
            s = line.strip()
            if re.match(r"Section\s+\w+", s):
                depth += 1
            elif re.match(r"End\s+\w+\s*\.", s) and depth > 0:
                depth -= 1
            elif depth == 0 and re.match(r"(Variables?|Hypothes[ie]s|Context)\b", s):
                bad.append((rel, "section-less " + s.split()[0]))
    return bad


def write_coqproject():
    files = coq_sources()
    with open(os.path.join(COQ, "_CoqProject"), "w") as f:
        f.write("-Q . StgV\n-arg -w -arg -notation-overridden,-deprecated-hint-without-locality\n")
        for rel in files:
            f.write(rel + "\n")
    return files


def coq_make(targets, timeout=1500):
    """Full (.vo) build of the given targets and their dependencies.  Returns
    (ok, log_text)."""
    with Lock("coq"):
        write_coqproject()
        p = run(["coq_makefile", "-f", "_CoqProject", "-o", "Makefile"], cwd=COQ, timeout=120)
        if p.returncode != 0:
            return False, p.stdout + p.stderr
        t0 = time.time()
        try:
            p = run(
                ["make", "-j16", "-k"] + targets,
                cwd=COQ,
                timeout=timeout,
                env={"TIMED": ""},
            )
        except subprocess.TimeoutExpired as e:
            return False, "TIMEOUT after %ss\n" % timeout
        log("coq make %s: rc=%d %.1fs" % (" ".join(targets), p.returncode, time.time() - t0))
        return p.returncode == 0, p.stdout + p.stderr


def print_assumptions(prop_file):
    """Compile Properties/<prop_file>.v on its own (dependencies are already built) and
    return {theorem: assumptions_text}.  The file prints `Print Assumptions thm.` after
    each theorem; coqc prints the result on stdout."""
    with Lock("coq"):
        p = run(
            ["coqc", "-Q", ".", "StgV", "-w", "-notation-overridden", "Properties/%s.v" % prop_file],
            cwd=COQ,
            timeout=900,
        )
    out = p.stdout
    text = strip_coq_comments(open(os.path.join(COQ, "Properties", prop_file + ".v")).read())
    names = re.findall(r"Print\s+Assumptions\s+([\w.']+)\s*\.", text)
    # coqc prints, per Print Assumptions, either "Closed under the global context" or
    # "Axioms:\n name : type ...".  Split on these headers in order.
    chunks = re.split(r"(?m)^(?=Closed under the global context|Axioms:|Section Variables:)", out)
    chunks = [c.strip() for c in chunks if c.strip()]
    chunks = [c for c in chunks if c.startswith(("Closed", "Axioms", "Section"))]
    res = {}
    for i, n in enumerate(names):
        res[n] = chunks[i] if i < len(chunks) else "MISSING"
    return p.returncode == 0, res, out + p.stderr


def theorem_names(prop_file):
    text = strip_coq_comments(open(os.path.join(COQ, "Properties", prop_file + ".v")).read())
    return re.findall(r"(?m)^\s*Theorem\s+([\w']+)", text)


# ----------------------------------------------------------------------------- ocaml


def build_driver():
    """Extract the model (Extract.vo must be built -> writes ocaml/model.ml) and compile
    the driver."""
    with Lock("ocaml"):
        src = [os.path.join(OCAML, f) for f in ("model.mli", "model.ml", "driver.ml")]
        exe = os.path.join(OCAML, "driver")
        if os.path.exists(exe) and all(
            os.path.getmtime(s) <= os.path.getmtime(exe) for s in src
        ):
            return exe
        p = run(
            ["ocamlfind", "ocamlopt", "-O2", "-w", "-a", "model.mli", "model.ml", "driver.ml", "-o", "driver"],
            cwd=OCAML,
            timeout=600,
        )
        if p.returncode != 0:
            raise BuildError("ocaml driver build failed:\n" + p.stderr[-3000:])
        return exe


# ----------------------------------------------------------------------------- verdicts


class Ctx:
    def __init__(self, prop, tier, seed):
        self.prop = prop
        self.tier = tier
        self.seed = seed
        self.rng = random.Random(seed)
        self.t0 = time.time()
        self.violations = []  # (replay_path, no_input_found: bool)
        self.known = []
        self.coverage = {}
        self.assumptions = []
        self.obligations = 0
        self.discharged = 0
        self.trusted_base = []

    def quick(self):
        return self.tier == "quick"


def write_replay(ctx, kind, payload, name_hint=""):
    os.makedirs(REPLAYS, exist_ok=True)
    blob = json.dumps(payload, sort_keys=True, indent=1, default=str)
    h = hashlib.sha1(blob.encode()).hexdigest()[:12]
    path = os.path.join(REPLAYS, "%s-%s%s.json" % (ctx.prop, name_hint, h))
    doc = {
        "property": ctx.prop,
        "kind": kind,
        "how_to_run": "./check %s --replay %s" % (ctx.prop, path),
    }
    doc.update(payload)
    with open(path, "w") as f:
        json.dump(doc, f, indent=1, sort_keys=True, default=str)
    return path


def violation(ctx, payload, found_input=True, hint=""):
    kind = "counterexample" if found_input else "broken-obligation"
    path = write_replay(ctx, kind, payload, hint)
    ctx.violations.append((path, not found_input))
    return path


def write_evidence(ctx, level="proof"):
    os.makedirs(EVIDENCE, exist_ok=True)
    cov = dict(ctx.coverage)
    cov.setdefault("obligations", ctx.obligations)
    cov.setdefault("discharged", ctx.discharged)
    cov.setdefault("trusted_base", ctx.trusted_base)
    cov.setdefault("checker_cmd", "coq_makefile -f _CoqProject -o Makefile && make -j16 Properties/%s.vo (coqc 8.16.1)" % ctx.prop)
    doc = {
        "property_id": ctx.prop,
        "tier": ctx.tier,
        "seed": ctx.seed,
        "level": level,
        "coverage": cov,
        "assumptions": ctx.assumptions,
        "wall_s": round(time.time() - ctx.t0, 2),
        "violations": len(ctx.violations),
        "known_findings_seen": ctx.known,
    }
    with open(os.path.join(EVIDENCE, ctx.prop + ".json"), "w") as f:
        json.dump(doc, f, indent=1, sort_keys=True, default=str)


def finish(ctx, level="proof"):
    write_evidence(ctx, level)
    for k in ctx.known:
        print("KNOWN-FINDING: property=%s %s" % (ctx.prop, k))
    if ctx.violations:
        seen = set()
        for path, noinput in ctx.violations:
            if path in seen:
                continue
            seen.add(path)
            print(
                "VIOLATION property=%s replay=%s%s"
                % (ctx.prop, path, " no-failing-input-found" if noinput else "")
            )
        sys.stdout.flush()
        return 1
    print("OK property=%s tier=%s wall=%.1fs" % (ctx.prop, ctx.tier, time.time() - ctx.t0))
    return 0
