"""Dirt x state x command matrix (C03, C10): real stg commands run in a repository whose work
tree carries local changes, for every combination of

  a stack arrangement   (all applied / all popped / a patch whose base was deleted / half applied),
  a kind of local dirt  (unstaged or staged edit of a file the patches merge, of a file they
                         replace, of a file they never touch; an untracked file in the way of a
                         file a patch creates),
  a command             (pushes and pops with and without --keep, goto, float, sink, delete,
                         squash, pick, edit, refresh, undo, reset, rebase, commit, clean, hide).

Judged by direct oracles on the real repository, independent of the model:

  exit status 1 or 2  ->  refs, HEAD, index entries and every work-tree file (tracked or not) are
                          byte for byte what they were                                   (C03)
  exit status 3       ->  the branch head is the top of the stack (or the base)          (C03/C09)
  any exit status     ->  the local modification / the untracked file still has its content
                          unless the command is `refresh` (which absorbs it on purpose)  (C10)

The repositories for the stack arrangements are built once and copied per run."""

import hashlib
import itertools
import os
import random
import shutil
import subprocess

from . import repo

MARK = "PRECIOUS local edit"

STATES = ["applied", "popped", "base-deleted", "half"]
DIRT = ["unstaged-f", "staged-f", "unstaged-g", "unstaged-notes", "untracked-h", "staged-new"]
COMMANDS = [
    ["push", "-a", "--keep"], ["push", "--keep", "p2", "p3"], ["push", "-a"], ["push", "p3"], ["push", "--keep", "p4"],
    ["goto", "--keep", "p3"], ["goto", "p3"], ["goto", "--keep", "p1"], ["goto", "p4", "--keep"],
    ["pop", "-a", "--keep"], ["pop", "--keep"], ["pop", "-a"], ["pop", "--keep", "p1"], ["pop", "p2"],
    ["float", "--keep", "p3"], ["float", "--keep", "p1", "p3"], ["float", "p2"],
    ["sink", "--keep", "p4"], ["sink", "--keep", "--to", "p2", "p3"], ["sink", "--to", "p1", "p4"],
    ["delete", "p2"], ["delete", "p1"], ["delete", "--top"],
    ["squash", "-m", "sq", "-n", "sq", "p2", "p3"], ["squash", "-m", "sq", "p1", "p4"],
    ["pick", "--name", "cp", "p3"], ["pick", "--noapply", "p2"], ["pick", "--fold", "p4"],
    ["edit", "-m", "new message", "p2"], ["edit", "-m", "new message", "p1"],
    ["refresh"], ["refresh", "--index"], ["refresh", "-p", "p1"],
    ["undo"], ["redo"], ["reset", "refs/stacks/main~2"], ["reset", "refs/stacks/main~4", "p3"],
    ["rebase", "HEAD~1"], ["rebase", "{base}"], ["commit", "-a"], ["commit", "p2"], ["clean"], ["hide", "p2"],
    ["uncommit", "-n", "1"], ["new", "-m", "fresh", "fresh"], ["spill"], ["repair"],
]


def _sh(r, args):
    return subprocess.run(args, cwd=r.path, capture_output=True, env=r.env())


def make_base(stg, state):
    """returns a repo.Scratch (caller closes it) holding the stack arrangement"""
    r = repo.Scratch("dmx")
    r.__enter__()
    r.init_repo()
    r.write("f", "a\nb\nc\n")
    r.write("g", "g\n")
    r.write("notes", "tracked notes\n")
    r.git(["add", "-A"])
    r.git(["commit", "-q", "-m", "files"])
    r.write("z", "z\n")
    r.git(["add", "-A"])
    r.git(["commit", "-q", "-m", "more"])
    r.stg(stg, ["init"])
    for name, path, content in (("p1", "f", "a\nb1\nc\n"), ("p2", "h", "h\n"), ("p3", "f", "a\nb3\nc\n"),
                                ("p4", "g", "g4\n")):
        r.stg(stg, ["new", "-m", name, name])
        r.write(path, content)
        r.git(["add", "-A"])
        r.stg(stg, ["refresh"])
    if state == "popped":
        r.stg(stg, ["pop", "-a"])
    elif state == "base-deleted":
        r.stg(stg, ["pop", "-a"])
        r.stg(stg, ["delete", "p1"])
    elif state == "half":
        r.stg(stg, ["pop", "-n", "2"])
    return r


def add_dirt(r, dirt):
    """returns (path, expected content) of the precious local content"""
    def cur(path):
        try:
            return r.read(path)
        except OSError:
            return ""
    if dirt == "unstaged-f":
        c = cur("f") + MARK + "\n"
        r.write("f", c)
        return "f", c
    if dirt == "staged-f":
        c = cur("f") + MARK + "\n"
        r.write("f", c)
        r.git(["add", "f"])
        return "f", c
    if dirt == "unstaged-g":
        c = cur("g") + MARK + "\n"
        r.write("g", c)
        return "g", c
    if dirt == "unstaged-notes":
        c = cur("notes") + MARK + "\n"
        r.write("notes", c)
        return "notes", c
    if dirt == "untracked-h":
        if os.path.exists(os.path.join(r.path, "h")):
            c = MARK + " in an untracked file\n"
            r.write("untracked.txt", c)
            return "untracked.txt", c
        c = MARK + " where a patch wants to create h\n"
        r.write("h", c)
        return "h", c
    if dirt == "staged-new":
        c = MARK + " staged new file\n"
        r.write("brandnew", c)
        r.git(["add", "brandnew"])
        return "brandnew", c
    raise ValueError(dirt)


def snapshot(r):
    refs = _sh(r, ["git", "for-each-ref", "--format=%(refname) %(objectname)"]).stdout
    head = _sh(r, ["git", "symbolic-ref", "-q", "HEAD"]).stdout + _sh(r, ["git", "rev-parse", "HEAD"]).stdout
    index = _sh(r, ["git", "ls-files", "-s"]).stdout
    files = {}
    for base, dirs, names in os.walk(r.path):
        if ".git" in dirs:
            dirs.remove(".git")
        for nme in names:
            p = os.path.join(base, nme)
            with open(p, "rb") as f:
                files[os.path.relpath(p, r.path)] = hashlib.sha1(f.read()).hexdigest()
    return {"refs": refs, "head": head, "index": index, "files": files}


def diff_snap(a, b):
    out = []
    for k in ("refs", "head", "index"):
        if a[k] != b[k]:
            la, lb = set(a[k].decode().split("\n")), set(b[k].decode().split("\n"))
            out.append("%s changed: -%s +%s" % (k, sorted(la - lb)[:3], sorted(lb - la)[:3]))
    if a["files"] != b["files"]:
        ch = sorted(set(a["files"].items()) ^ set(b["files"].items()))
        out.append("work tree files changed: %s" % sorted({p for p, _ in ch})[:5])
    return out


def run_case(stg, base, state, dirt, argv, tag):
    """copy the prepared repository, add the dirt, run the command, judge"""
    with repo.Scratch(tag) as r:
        shutil.rmtree(r.path)
        shutil.copytree(base.path, r.path, symlinks=True)
        r.tick = base.tick + 100
        path, content = add_dirt(r, dirt)
        before = snapshot(r)
        p = r.stg(stg, argv)
        after = snapshot(r)
        probs = []
        if p.returncode in (1, 2):
            d = diff_snap(before, after)
            if d:
                probs.append({"clause": "C03", "why": "the command failed with status %d but changed the repository: %s"
                                                      % (p.returncode, "; ".join(d))})
        elif p.returncode == 3:
            top = r.stg(stg, ["id", "--", "{base}"]).stdout.strip()
            s = r.stg(stg, ["series", "--noprefix", "-A"]).stdout.split()
            if s:
                top = r.rev("refs/patches/main/" + s[-1])
            if top and top != r.rev("HEAD"):
                probs.append({"clause": "C03", "why": "the command stopped with status 3 but the branch head is not the "
                                                      "top of the stack"})
        elif p.returncode != 0:
            probs.append({"clause": "C20", "why": "exit status %d" % p.returncode})
        if argv[0] != "refresh" or p.returncode != 0:
            try:
                now = r.read(path)
            except OSError:
                now = None
            if now is None:
                probs.append({"clause": "C10", "why": "%s (carrying the local content) is gone" % path})
            elif MARK not in now:
                probs.append({"clause": "C10", "why": "the local content of %s was overwritten" % path})
        return p.returncode, p.stderr[-300:], probs


def run_matrix(stg, seed, quick, tag="dmx"):
    """returns (number of runs, stats, failures)"""
    rng = random.Random(seed)
    combos = list(itertools.product(STATES, DIRT, range(len(COMMANDS))))
    if quick:
        # a fixed core (every --keep command and every command that re-pushes or deletes below the top,
        # in every stack arrangement, with an unstaged edit of the merged file and with a staged new
        # file), every other command once, and a seeded random sample of the rest
        core_cmds = [i for i, a in enumerate(COMMANDS)
                     if "--keep" in a or a[0] in ("delete", "squash", "pick", "edit", "rebase")]
        chosen = [(st, di, i) for i in core_cmds for st in STATES for di in ("unstaged-f", "staged-new")]
        pairs = list(itertools.product(STATES, DIRT))
        rng.shuffle(pairs)
        for k, i in enumerate(j for j in range(len(COMMANDS)) if j not in core_cmds):
            st, di = pairs[k % len(pairs)]
            chosen.append((st, di, i))
        combos = chosen + rng.sample(combos, 20)
    bases = {}
    failures = []
    stats = {"runs": 0, "exit": {}, "by_state": {}, "by_dirt": {}}
    try:
        for st in STATES:
            bases[st] = make_base(stg, st)
        jobs = [(stg, bases[st].path, bases[st].tick, st, di, COMMANDS[ci], tag) for st, di, ci in combos]
        import multiprocessing
        with multiprocessing.Pool(12) as pool:
            results = pool.map(_job, jobs, chunksize=4)
        for (st, di, ci), (code, stderr, probs) in zip(combos, results):
            argv = COMMANDS[ci]
            stats["runs"] += 1
            stats["exit"][str(code)] = stats["exit"].get(str(code), 0) + 1
            stats["by_state"][st] = stats["by_state"].get(st, 0) + 1
            stats["by_dirt"][di] = stats["by_dirt"].get(di, 0) + 1
            for pr in probs:
                failures.append({"state": st, "dirt": di, "argv": argv, "exit": code, "stderr": stderr, **pr})
    finally:
        for b in bases.values():
            b.__exit__(None, None, None)
    return stats["runs"], stats, failures


class _Base:
    def __init__(self, path, tick):
        self.path = path
        self.tick = tick


def _job(args):
    stg, path, tick, st, di, argv, tag = args
    return run_case(stg, _Base(path, tick), st, di, argv, tag)


def check(ctx, stg, clause, tag):
    """run the matrix for one property: registers one obligation, reports violations of `clause`"""
    from . import common
    n, stats, fails = run_matrix(stg, ctx.seed, ctx.quick(), tag=tag)
    mine = [f for f in fails if f["clause"] == clause]
    ctx.obligations += 1
    if not mine:
        ctx.discharged += 1
    seen = set()
    for f in mine:
        key = (tuple(f["argv"]), f["why"][:50])
        if key in seen or len(seen) >= 3:
            continue
        seen.add(key)
        common.violation(ctx, {"obligation": "direct-oracle:%s:dirt-matrix" % clause, **f}, found_input=True, hint="dmx-")
    ctx.coverage["dirt_matrix"] = stats
    ctx.coverage["evaluations"] = ctx.coverage.get("evaluations", 0) + n


def replay(ctx, doc):
    from . import common
    stg = common.build_stg()
    base = make_base(stg, doc["state"])
    try:
        code, stderr, probs = run_case(stg, base, doc["state"], doc["dirt"], doc["argv"], "dmxr")
    finally:
        base.__exit__(None, None, None)
    print("exit", code, stderr)
    for pr in probs:
        print(pr)
    return 1 if probs else 0
