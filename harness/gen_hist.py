"""Adaptive scenario generation for history-level runs: the chooser sees the model's current
view (lists, cells) and picks a mostly-valid next command; a small share of commands is
deliberately invalid (unknown patches, wrong group, bad numbers)."""

from . import hist

NAMES = ["p0", "p1", "p2", "p3", "fix", "a-b", "x.y", "5", "abc123", "-lead", "p+1", "été", "P9", "q", "r", "t",
         "u7", "w", "z.z", "k_1", "n0", "n1", "n2", "n3", "n4", "n5", "n6", "n7", "n8", "n9", "m0", "m1", "m2", "m3",
         "m4", "m5", "m6", "m7", "m8", "m9"]


class Profile:
    """weights of command kinds"""

    def __init__(self, **w):
        self.w = w


BASIC = Profile(new=10, edit_refresh=10, push=10, pop=10, goto=6, float=6, sink=6, delete=4, hide=3, unhide=3,
                rename=3, commit=3, uncommit=2, clean=2, undo=5, redo=3, reset=2, inspect=2, repair=1,
                gcommit=1, greset=1, gamend=1, spill=1, logclear=0.3, invalid=4, edit_msg=3, rebase=1.5, hidden_ops=2, squash=2.5, pick=2.5, reset_deleted=1, uncommit_auto=1, uncommit_collide=0.7, gconfig=0.5, refresh_p=3, commit_roundtrip=0.7)
REORDER = Profile(new=6, edit_refresh=8, push=14, pop=12, goto=8, float=10, sink=10, delete=5, hide=4, unhide=4,
                  commit=4, rename=1, undo=2, invalid=2, upstream=3, edit_msg=3, rebase=2, hidden_ops=3, conflict_reorder=3, sink_mixed=4, squash=4, pick=2, refresh_p=4, split_below=3, pop_push_roundtrip=3)
UNDO = Profile(new=6, edit_refresh=6, push=8, pop=8, float=3, sink=3, delete=3, hide=2, unhide=2, rename=2,
               undo=14, redo=10, reset=6, gcommit=1.5, commit=1, invalid=1, extmods=2, edit_msg=3, rebase=1, redo_chain=3, extmods_fail=2, pick=2, reset_deleted=3, refresh_p=2)
REPAIR = Profile(new=8, edit_refresh=8, push=5, pop=6, delete=2, hide=2, repair=10, gcommit=8, gamend=4, greset=9,
                 gmerge=1, undo=1, commit=1, uncommit=1, inspect=1, twin_commits=3, repair_from_empty=3, extmods_fail=4, reset=2)
COMMIT = Profile(new=10, edit_refresh=8, push=6, pop=6, commit=12, uncommit=10, float=3, sink=3, undo=3, redo=2,
                 gcommit=3, delete=2, hide=2, goto=2, repair=1, invalid=1, edit_msg=2, rebase=3, squash=2, pick=3, uncommit_auto=4, uncommit_collide=2.5, commit_roundtrip=3, uncommit_commit_roundtrip=2.5)
DIRTY = Profile(new=8, edit_refresh=6, dirty_edit=14, push=10, pop=10, goto=6, float=5, sink=5, delete=4, hide=2,
                unhide=1, commit=2, undo=4, redo=2, reset=1, rename=1, clean=1, repair=1, edit_msg=1, rebase=2)
# trial profile for model growth (not used by a registered check until the model has landed)
NEXT = Profile(new=10, edit_refresh=8, push=6, pop=6, commit=8, uncommit=4, uncommit_auto=8, uncommit_collide=4,
               hide=3, unhide=2, delete=2, undo=3, redo=2, pick=3, gcommit=3, float=2, sink=2, reset_deleted=2)
# conflicts with stgit.push.allow-conflicts switched off and on
NOCONF = Profile(new=6, edit_refresh=8, push=10, pop=12, goto=6, float=10, sink=10, delete=5, commit=5, undo=3,
                 edit_msg=3, rebase=3, squash=4, pick=4, reset=2, reset_deleted=2, conflict_reorder=6, sink_mixed=3,
                 gconfig=3, clean=1, hide=2, unhide=1, refresh_p=4)
BIG = Profile(new=30, edit_refresh=6, push=6, pop=10, hide=8, unhide=3, delete=2, float=3, sink=3, undo=3, redo=1,
              rename=2, big_clear=2)


class Chooser:
    def __init__(self, rng, profile=BASIC, single_cells_only=False):
        self.rng = rng
        self.p = profile
        self.meta = 0
        self.pending = []
        self.seen = []            # every patch name ever seen, in order of first appearance
        self.single_cells_only = single_cells_only

    def next_meta(self):
        self.meta += 1
        return self.meta

    def fresh_name(self, view):
        used = set(view["A"] + view["U"] + view["H"])
        low = {u.lower() for u in used}
        cands = [n for n in NAMES if n.lower() not in low]
        return self.rng.choice(cands) if cands else "g%d" % self.next_meta()

    def edit_cmd(self, view):
        rng = self.rng
        ncells = len(view["wt"])
        nm = hist.NFILES_MULTI * hist.REGIONS
        if self.single_cells_only or rng.random() < 0.25:
            cell = rng.randrange(nm, ncells)
            v = rng.choice([0, 1, 2, 3])
        elif rng.random() < 0.5:
            cell = rng.randrange(0, 3)          # hot cells: overlapping edits -> conflicts
            v = rng.randint(1, 4)
        else:
            cell = rng.randrange(0, nm)
            v = rng.randint(1, 4)
        return {"c": "gedit", "cell": cell, "v": v}

    def pick_some(self, l, kmax=3):
        if not l:
            return []
        k = self.rng.randint(1, min(kmax, len(l)))
        return self.rng.sample(l, k)

    def range_args(self, l, view):
        """arguments naming some of l: single names, a..b ranges, locators"""
        rng = self.rng
        if not l:
            return [rng.choice(NAMES)]
        k = rng.random()
        if k < 0.55:
            return self.pick_some(l)
        if k < 0.80 and len(l) >= 2:
            i = rng.randrange(len(l))
            j = rng.randrange(len(l))
            a, b = l[min(i, j)], l[max(i, j)]
            if rng.random() < 0.15:
                a, b = b, a
            return [a + ".." + b]
        if k < 0.88:
            return [rng.choice([l[0] + "..", ".." + l[-1], ".."])]
        if k < 0.94:
            allp = view["A"] + view["U"] + view["H"]
            return [str(allp.index(rng.choice(l)))] if allp else [".."]
        return [rng.choice(l) + rng.choice(["~", "+", "~1", "+1", "+0"])]

    def __call__(self, view, i):
        rng = self.rng
        if not view["initialized"] and i == 0 and rng.random() < 0.7:
            return {"c": "init"}
        if view["unmerged"]:
            # conflicted: mostly recover; sometimes try commands that must be refused
            self.pending = []
            k = rng.random()
            if k < 0.45:
                return {"c": "undo", "flags": ["hard"]}
            if k < 0.55:
                return {"c": "reset", "flags": ["hard"]}
            if k < 0.62:
                return {"c": "undo", "flags": []}
        for nme in view["A"] + view["U"] + view["H"]:
            if nme not in self.seen:
                self.seen.append(nme)
        while self.pending:
            item = self.pending.pop(0)
            if callable(item):            # a step that depends on the state reached so far
                item = item(view)
                if item is None:
                    self.pending = []
                    break
            return item
        A, U, H = view["A"], view["U"], view["H"]
        if not view["unmerged"] and view["wt"] != view["branch_tree"] and view["branch_tree"] is not None \
                and "dirty_edit" not in self.p.w:
            # stale / dirty work tree (after hide of applied patches, --spill, ...): resync most
            # of the time; index != work tree states are outside the single-tree model
            k = rng.random()
            if k < 0.75:
                return {"c": "reset", "flags": ["hard"]}
            if k < 0.9 and A:
                return {"c": "refresh"}
        # feasibility: do not ask for the impossible most of the time
        feasible = {
            "push": bool(U), "pop": bool(A), "goto": bool(A or U), "float": bool(A or U), "sink": bool(A),
            "delete": bool(A or U or H), "hide": bool(A or U), "unhide": bool(H), "rename": bool(A or U or H),
            "commit": bool(A), "clean": bool(A or U), "spill": bool(A), "undo": view["log_len"] > 1,
            "redo": view["log_len"] > 1, "reset": view["log_len"] > 1, "edit_refresh": bool(A),
            "repair": view["initialized"], "logclear": view["initialized"],
            "uncommit": view.get("below_base", 1) > 0, "uncommit_auto": view.get("below_base", 1) > 0,
            "uncommit_collide": bool(A),
        }
        npatches = len(A) + len(U) + len(H)
        kinds = [(k, (w if feasible.get(k, True) else w * 0.04)) for k, w in self.p.w.items()]
        if npatches < 3:
            kinds = [(k, (w * 4 if k == "new" else w)) for k, w in kinds]
        if view["unmerged"]:
            # (a work-tree edit while the index is unmerged resolves the conflict in the real
            # repository; the clean model has no such operation: no macro that edits runs now)
            kinds = [(k, w) for k, w in kinds if k not in ("edit_refresh", "dirty_edit", "gcommit", "gamend", "gmerge",
                                                            "greset", "upstream", "extmods", "twin_commits",
                                                            "conflict_reorder", "repair_from_empty", "extmods_fail", "refresh_p", "split_below")]
        total = sum(w for _, w in kinds)
        x = rng.random() * total
        for kind, w in kinds:
            x -= w
            if x <= 0:
                break
        if kind == "new":
            if rng.random() < 0.75 and not view["unmerged"]:
                self.pending = [self.edit_cmd(view), {"c": "refresh"}]
            return {"c": "new", "name": self.fresh_name(view), "meta": self.next_meta()}
        if kind == "edit_refresh":
            self.pending = [{"c": "refresh"}]
            return self.edit_cmd(view)
        if kind == "dirty_edit":
            return self.edit_cmd(view)
        if kind == "upstream":
            # make some unapplied patches "already merged upstream": pop everything, commit the
            # same change (plus sometimes an unrelated one) with plain git, then push --merged
            cands = [n for n in (A + U) if view["deltas"].get(n)]
            if not cands:
                return {"c": "new", "name": self.fresh_name(view), "meta": self.next_meta()}
            chosen = self.pick_some(cands, 2)
            seq = []
            if A:
                seq.append({"c": "pop", "flags": ["all"]})
            for n in chosen:
                for cell, v in view["deltas"][n]:
                    seq.append({"c": "gedit", "cell": cell, "v": v})
            if rng.random() < 0.6:
                seq.append(self.edit_cmd(view))
            m = self.next_meta()
            seq.append({"c": "gcommit", "meta": m, "subj": "x%d upstream" % m})
            k = rng.random()
            allp = [n for n in (A + U)]
            if k < 0.4:
                seq.append({"c": "push", "flags": ["merged", "all"]})
            elif k < 0.8:
                others = [n for n in allp if n not in chosen]
                rng.shuffle(others)
                seq.append({"c": "push", "flags": ["merged"], "ranges": chosen + others[:2]})
            else:
                seq.append({"c": "goto", "loc": rng.choice(allp), "flags": ["merged"]})
            self.pending = seq[1:]
            return seq[0]
        if kind == "__unused__":
            ncells = len(view["wt"])
            nm = hist.NFILES_MULTI * hist.REGIONS
            if self.single_cells_only or rng.random() < 0.25:
                cell = rng.randrange(nm, ncells)
                v = rng.choice([0, 1, 2, 3])
            else:
                cell = rng.randrange(0, nm)
                v = rng.randint(1, 4)
            return {"c": "gedit", "cell": cell, "v": v}
        if kind == "push":
            k = rng.random()
            c = {"c": "push", "flags": []}
            if k < 0.35:
                pass
            elif k < 0.5:
                c["n"] = rng.choice([1, 2, 3, -1, -2, 0, 10])
            elif k < 0.6:
                c["flags"].append("all")
            else:
                c["ranges"] = self.range_args(U, view)
            keep_pr = 0.6 if "dirty_edit" in self.p.w else 0.1
            for f, pr in (("reverse", 0.1), ("noapply", 0.08), ("set-tree", 0.05), ("merged", 0.1), ("keep", keep_pr)):
                if rng.random() < pr:
                    c["flags"].append(f)
            if "noapply" in c["flags"]:
                c["flags"] = [f for f in c["flags"] if f not in ("set-tree", "merged")]
            if "noapply" in c["flags"] and ("ranges" not in c):
                c["flags"].remove("noapply")
            if rng.random() < 0.15:
                c["conflicts"] = rng.choice(["allow", "disallow"])
            return c
        if kind == "pop":
            k = rng.random()
            c = {"c": "pop", "flags": []}
            if k < 0.4:
                pass
            elif k < 0.55:
                c["n"] = rng.choice([1, 2, 3, -1, -2, 0, 10])
            elif k < 0.65:
                c["flags"].append("all")
            else:
                c["ranges"] = self.range_args(A, view)
            if rng.random() < (0.6 if "dirty_edit" in self.p.w else 0.1):
                c["flags"].append("keep")
            return c
        if kind == "goto":
            vis = A + U
            loc = rng.choice(vis) if vis and rng.random() < 0.85 else rng.choice(NAMES + ["{base}", "@", "~1"])
            c = {"c": "goto", "loc": loc, "flags": []}
            if "dirty_edit" in self.p.w and rng.random() < 0.6:
                c["flags"].append("keep")
            if rng.random() < 0.1:
                c["flags"].append("merged")
            return c
        if kind == "float":
            c = {"c": "float", "ranges": self.range_args(A + U if (rng.random() < 0.85 or not H) else H, view), "flags": []}
            if "dirty_edit" in self.p.w and rng.random() < 0.6:
                c["flags"].append("keep")
            if rng.random() < 0.15:
                c["flags"].append("noapply")
            return c
        if kind == "sink":
            c = {"c": "sink", "flags": []}
            if rng.random() < 0.8:
                c["ranges"] = self.range_args(A + U if (rng.random() < 0.75 or not H) else H, view)
            if A and rng.random() < 0.6:
                c["target"] = rng.choice(A)
                c["above"] = rng.random() < 0.4
            if rng.random() < 0.15:
                c["flags"].append("nopush")
            return c
        if kind == "delete":
            k = rng.random()
            c = {"c": "delete", "flags": []}
            if k < 0.6:
                c["ranges"] = self.range_args(A + U + H, view)
            elif k < 0.75:
                c["flags"].append("top")
            elif k < 0.9:
                c["flags"].append(rng.choice(["unapplied", "hidden", "applied"]))
            else:
                c["flags"].append("all")
            return c
        if kind == "hide":
            return {"c": "hide", "ranges": self.range_args(A + U + (H if rng.random() < 0.2 else []), view)}
        if kind == "unhide":
            return {"c": "unhide", "ranges": self.range_args(H, view)}
        if kind == "rename":
            allp = A + U + H
            c = {"c": "rename", "new": self.fresh_name(view) if rng.random() < 0.85 else rng.choice(NAMES)}
            if allp and rng.random() < 0.7:
                c["old"] = rng.choice(allp)
            return c
        if kind == "commit":
            k = rng.random()
            c = {"c": "commit", "flags": []}
            if k < 0.4:
                pass
            elif k < 0.6:
                c["n"] = rng.choice([1, 2, 0, 5])
            elif k < 0.7:
                c["flags"].append("all")
            else:
                c["ranges"] = self.range_args(A + U, view)
            if rng.random() < 0.5:
                c["flags"].append("allow-empty")
            return c
        if kind == "commit_roundtrip":
            # theorem C12_commit_uncommit_roundtrip on the real program: commit the k bottom-most
            # patches, uncommit them under the same names (top-most name first)
            if not A:
                return {"c": "new", "name": self.fresh_name(view), "meta": self.next_meta()}
            k = rng.randint(1, len(A))
            self.pending = [{"c": "uncommit", "names": list(reversed(A[:k])), "rt": "end"}]
            return {"c": "commit", "flags": ["allow-empty"], "n": k, "rt": "begin"}
        if kind == "pop_push_roundtrip":
            # theorem C07_pop_push_roundtrip on the real program
            if not A:
                return {"c": "new", "name": self.fresh_name(view), "meta": self.next_meta()}
            k = rng.randint(1, len(A))
            self.pending = [{"c": "push", "flags": [], "n": k, "rt": "end", "rt_label": "pop -n k; push -n k"}]
            return {"c": "pop", "flags": [], "n": k, "rt": "begin"}
        if kind == "uncommit_commit_roundtrip":
            # theorem C12_uncommit_commit_roundtrip on the real program
            bb = view.get("below_base", 0)
            if not bb:
                return {"c": "new", "name": self.fresh_name(view), "meta": self.next_meta()}
            k = rng.randint(1, min(3, bb))
            self.pending = [{"c": "commit", "flags": ["allow-empty"], "n": k, "rt": "end",
                             "rt_label": "uncommit -n k; commit -n k"}]
            return {"c": "uncommit", "n": k, "names": [], "rt": "begin"}
        if kind == "uncommit":
            k = rng.random()
            if k < 0.5:
                return {"c": "uncommit", "n": rng.choice([1, 2, 3]), "names": [self.fresh_name(view)]}
            return {"c": "uncommit", "names": [self.fresh_name(view)]}
        if kind == "clean":
            return {"c": "clean", "flags": rng.choice([[], ["applied"], ["unapplied"]])}
        if kind == "spill":
            return {"c": "spill"}
        if kind == "undo":
            c = {"c": "undo", "flags": ["hard"] if (view["unmerged"] or rng.random() < 0.15) else []}
            if rng.random() < 0.35:
                c["n"] = rng.choice([1, 2, 2, 3, 4, 7])
            return c
        if kind == "redo":
            c = {"c": "redo", "flags": ["hard"] if view["unmerged"] else []}
            if rng.random() < 0.35:
                c["n"] = rng.choice([1, 2, 2, 3, 5])
            return c
        if kind == "reset":
            k = rng.random()
            if k < 0.15:
                return {"c": "reset", "flags": ["hard"]}
            c = {"c": "reset", "entry": rng.randint(0, max(0, min(view["log_len"] - 1, 6))), "flags": []}
            if rng.random() < 0.2:
                c["flags"].append("hard")
            if rng.random() < 0.3:
                gone = [x for x in self.seen if x not in A + U + H]
                c["ranges"] = self.pick_some(A + U + H + gone[-4:] + NAMES[:3], 2)
            return c
        if kind == "reset_deleted":
            # a patch is hidden (or not), deleted, and then brought back alone by a partial reset to
            # the entry in which it still existed
            pool = A + U
            if not pool:
                return {"c": "new", "name": self.fresh_name(view), "meta": self.next_meta()}
            pn = rng.choice(pool)
            seq = []
            if rng.random() < 0.7:
                seq.append({"c": "hide", "ranges": [pn]})
            seq.append({"c": "delete", "ranges": [pn], "flags": []})
            if rng.random() < 0.4:
                seq.append({"c": "new", "name": self.fresh_name(view), "meta": self.next_meta()})
            # refs/stacks/<b>~k: ~0 is the full entry, ~1 its simplified twin, ~2 the entry before, ...
            back = len(seq) - (1 if seq[0]["c"] == "hide" else 0) + 1
            seq.append({"c": "reset", "entry": back, "flags": [], "ranges": [pn]})
            seq.append({"c": "inspect", "argv": ["series", "-a"]})
            self.pending = seq[1:]
            return seq[0]
        if kind == "refresh_p":
            # a work-tree change absorbed into a patch that is not the top one (applied below the
            # top, unapplied, occasionally hidden = refused)
            pool = A[:-1] + U if rng.random() < 0.92 or not H else H
            if not pool or not A:
                return {"c": "new", "name": self.fresh_name(view), "meta": self.next_meta()}
            self.pending = [{"c": "refresh", "patch": rng.choice(pool)}]
            if rng.random() < 0.5 and not self.single_cells_only:
                # a hot cell: the patches above (or the unapplied target) are likely to touch it too
                return {"c": "gedit", "cell": rng.randrange(0, 3), "v": rng.randint(1, 4)}
            return self.edit_cmd(view)
        if kind == "uncommit_auto":
            if rng.random() < 0.5:
                return {"c": "uncommit", "n": rng.choice([1, 1, 2, max(1, view.get("below_base", 1)), 3]), "names": []}
            return {"c": "uncommit", "names": []}
        if kind == "uncommit_collide":
            # the name generated from a commit's message meets a HIDDEN patch of that name
            if not A:
                return {"c": "new", "name": self.fresh_name(view), "meta": self.next_meta()}
            top_hidden = lambda v: ({"c": "hide", "ranges": [v["A"][-1]]} if v["A"] else None)
            pick_hidden = lambda v: ({"c": "pick", "kind": "patch", "arg": v["H"][-1], "name": None, "flags": []}
                                     if v["H"] else None)
            self.pending = [{"c": "uncommit", "n": 1, "names": []}, top_hidden, pick_hidden,
                            {"c": "commit", "flags": ["all"]}, {"c": "uncommit", "names": []},
                            {"c": "inspect", "argv": ["series", "-a"]}]
            return {"c": "commit", "flags": ["all"]}
        if kind == "inspect":
            return {"c": "inspect", "argv": rng.choice([["series"], ["series", "-a"], ["top"], ["id"], ["log"]])}
        if kind == "repair":
            return {"c": "repair"}
        if kind == "logclear":
            return {"c": "logclear"}
        if kind == "repair_from_empty":
            allp = A + U + H
            if not allp:
                return {"c": "new", "name": self.fresh_name(view), "meta": self.next_meta()}
            seq = []
            if A:
                seq.append({"c": "pop", "flags": ["all"]})
            seq += [{"c": "greset", "kind": "patch", "arg": rng.choice(allp)}, {"c": "repair"}, {"c": "inspect", "argv": ["series"]}]
            self.pending = seq[1:]
            return seq[0]
        if kind == "big_clear":
            # a state commit that has to reference many commits the previous state does not hold
            seq = []
            if A:
                seq.append({"c": "pop", "flags": ["all"]})
            if U and rng.random() < 0.5:
                seq.append({"c": "hide", "ranges": [U[-1]]})
            seq += [{"c": "logclear"}, {"c": "inspect", "argv": ["series"]}]
            self.pending = seq[1:]
            return seq[0]
        if kind == "twin_commits":
            # two (or three) plain commits whose subjects derive the same patch name, then ONE repair
            subj = rng.choice(["wip", "Fix It", "tidy"])
            seq = []
            for j in range(rng.choice([2, 2, 3])):
                m = self.next_meta()
                seq.append(self.edit_cmd(view))
                s2 = subj if j != 1 or rng.random() < 0.7 else "other " + subj
                seq.append({"c": "gcommit", "meta": m, "subj": "%s\n\nx%d" % (s2, m)})
            seq.append({"c": "repair"})
            self.pending = seq[1:]
            return seq[0]
        if kind == "conflict_reorder":
            # a dependency chain a <- c on one cell with independent patches around it, then a
            # reordering command that must re-push several patches, one of which conflicts while
            # others are still waiting behind it
            if view["unmerged"] or view["wt"] != view.get("branch_tree", view["wt"]):
                return {"c": "inspect", "argv": ["series"]}
            cell = rng.randrange(0, 3)
            other = [x for x in range(3, 9) if x != cell]
            cur = view["wt"][cell]
            v1 = cur % 4 + 1
            v2 = v1 % 4 + 1
            na, nb, nc, nd = [self.fresh_name(view) for _ in range(4)]
            names = []
            for x in (na, nb, nc, nd):
                while x in names:
                    x = "g%d" % self.next_meta()
                names.append(x)
            na, nb, nc, nd = names
            seq = [{"c": "new", "name": na, "meta": self.next_meta()}, {"c": "gedit", "cell": cell, "v": v1}, {"c": "refresh"},
                   {"c": "new", "name": nb, "meta": self.next_meta()}, {"c": "gedit", "cell": other[0], "v": rng.randint(2, 4)}, {"c": "refresh"},
                   {"c": "new", "name": nc, "meta": self.next_meta()}, {"c": "gedit", "cell": cell, "v": v2}, {"c": "refresh"},
                   {"c": "new", "name": nd, "meta": self.next_meta()}, {"c": "gedit", "cell": other[1], "v": rng.randint(2, 4)}, {"c": "refresh"}]
            k = rng.random()
            if k < 0.3:
                seq.append({"c": "pop", "flags": [], "ranges": [na]})
            elif k < 0.55:
                seq.append({"c": "float", "flags": [], "ranges": [na]})
            elif k < 0.75:
                seq.append({"c": "sink", "flags": [], "ranges": [nc], "target": na, "above": False})
            elif k < 0.9:
                seq.append({"c": "delete", "flags": [], "ranges": [na]})
            else:
                seq.append({"c": "commit", "flags": [], "ranges": [nc]})
            seq += [{"c": "inspect", "argv": ["series"]}, {"c": "undo", "flags": ["hard"]}]
            self.pending = seq[1:]
            return seq[0]
        if kind == "split_below":
            # a new bottom patch that already contains part of the lowest patch's change, then ONE
            # push of the lowest patch (merges to an unchanged tree), its old neighbour (tree
            # short-cut, nothing is merged) and a patch from further up, skipping one (merged again)
            L = [n for n in A + U]
            if len(L) < 4 or not view["deltas"].get(L[0]):
                return {"c": "new", "name": self.fresh_name(view), "meta": self.next_meta()}
            seq = []
            if A:
                seq.append({"c": "pop", "flags": ["all"]})
            seq.append({"c": "new", "name": self.fresh_name(view), "meta": self.next_meta()})
            d = view["deltas"][L[0]]
            for cell, v in (d if rng.random() < 0.4 else d[:1]):
                seq.append({"c": "gedit", "cell": cell, "v": v})
            seq.append({"c": "refresh"})
            skip = rng.randrange(2, len(L) - 1)
            rest = [n for i, n in enumerate(L[2:], 2) if i != skip]
            picks = L[:2] + rest[:rng.randint(1, 2)]
            k = rng.random()
            if k < 0.7:
                seq.append({"c": "push", "flags": [], "ranges": picks})
            elif k < 0.85:
                seq.append({"c": "float", "flags": [], "ranges": picks})
            else:
                seq.append({"c": "push", "flags": [], "ranges": picks[:2] + [L[skip + 1] if skip + 1 < len(L) else L[-1]]})
            self.pending = seq[1:]
            return seq[0]
        if kind == "sink_mixed":
            # sink --to / --above a target in the middle, naming patches from BOTH sides of it
            if len(A) < 4:
                return {"c": "new", "name": self.fresh_name(view), "meta": self.next_meta()}
            ti = rng.randrange(1, len(A))                      # may be the topmost patch
            below = rng.sample(A[:ti], rng.randint(1, min(2, ti)))
            above = rng.sample(A[ti + 1:], rng.randint(0, min(2, len(A) - ti - 1))) if ti + 1 < len(A) else []
            picks = below + above
            rng.shuffle(picks)
            c = {"c": "sink", "flags": [], "ranges": picks, "target": A[ti], "above": rng.random() < 0.4}
            if rng.random() < 0.25:
                c["flags"].append("nopush")
            return c
        if kind == "hidden_ops":
            # commands that take a patch straight out of the hidden list
            seq = []
            h = None
            if H:
                h = rng.choice(H)
            elif A + U:
                h = rng.choice(U or A)
                if h in A:
                    seq.append({"c": "pop", "flags": [], "ranges": [h]})
                seq.append({"c": "hide", "ranges": [h]})
            if h is None:
                return {"c": "new", "name": self.fresh_name(view), "meta": self.next_meta()}
            k = rng.random()
            if k < 0.35:
                seq.append({"c": "sink", "flags": [], "ranges": [h]})
            elif k < 0.5 and A:
                seq.append({"c": "sink", "flags": [], "ranges": [h], "target": rng.choice(A), "above": rng.random() < 0.5})
            elif k < 0.75:
                seq.append({"c": "float", "flags": [], "ranges": [h]})
            elif k < 0.85:
                seq.append({"c": "goto", "flags": [], "loc": h})
            else:
                seq.append({"c": "push", "flags": [], "ranges": [h]})
            seq.append({"c": "pop", "flags": []})
            self.pending = seq[1:]
            return seq[0]
        if kind == "redo_chain":
            # several undos, a redo of more than one step, then further single redos / undos:
            # later redos have to account for the `redo k` entries already in the log
            k = rng.choice([3, 3, 4, 5])
            seq = [{"c": "undo", "flags": []} for _ in range(k)] if rng.random() < 0.6 else \
                [{"c": "undo", "n": k, "flags": []}]
            j = rng.choice([2, 2, 3])
            seq += [{"c": "redo", "n": j, "flags": []}, {"c": "redo", "flags": []}]
            if rng.random() < 0.5:
                seq += [{"c": "undo", "flags": []}, {"c": "redo", "n": 2, "flags": []}, {"c": "redo", "flags": []}]
            self.pending = seq[1:]
            return seq[0]
        if kind == "extmods_fail":
            # the branch moved by plain git, then a command that FAILS inside its transaction
            # (a partial reset naming a patch the entry does not have): nothing may be recorded
            m = self.next_meta()
            seq = [self.edit_cmd(view), {"c": "gcommit", "meta": m, "subj": "x%d external" % m}]
            ent = rng.randint(1, max(1, min(view["log_len"] - 1, 4)))
            k = rng.random()
            if k < 0.6:
                seq.append({"c": "reset", "entry": ent, "flags": [], "ranges": self.pick_some(A + U + H, 1) + ["nosuch"]})
            elif k < 0.8:
                seq.append({"c": "reset", "entry": ent, "flags": [], "ranges": ["nosuch"]})
            else:
                seq.append({"c": "reset", "entry": 60, "flags": []})
            seq.append({"c": "inspect", "argv": ["series"]})
            self.pending = seq[1:]
            return seq[0]
        if kind == "extmods":
            # an external commit on top of the stack, then navigation through the log entry
            # that records it (undo / redo / reset land ON the "external modifications" entry)
            m = self.next_meta()
            seq = [self.edit_cmd(view), {"c": "gcommit", "meta": m, "subj": "x%d external" % m}]
            k = rng.random()
            if k < 0.5:
                seq += [{"c": "undo", "flags": []}, {"c": "redo", "flags": []}]
            elif k < 0.75:
                seq += [{"c": "undo", "n": 2, "flags": []}, {"c": "redo", "flags": []}, {"c": "redo", "flags": []}]
            else:
                seq += [{"c": "inspect"}, {"c": "undo", "flags": []}, {"c": "reset", "entry": 1, "flags": ["hard"]}]
            self.pending = seq[1:]
            return seq[0]
        if kind == "gcommit":
            m = self.next_meta()
            if rng.random() < 0.5:
                self.pending_git_commit = m
            if rng.random() < 0.35:
                # same subject as other plain commits / patches (the tag moves to the body): the
                # names repair derives collide with each other and with existing patches
                return {"c": "gcommit", "meta": m, "subj": "%s\n\nx%d" % (rng.choice(["wip", "Fix It", "tidy", "p0"]), m)}
            return {"c": "gcommit", "meta": m, "subj": "x%d %s" % (m, rng.choice(["git change", "Fix It", "wip", "p0", "a  b"]))}
        if kind == "gamend":
            m = self.next_meta()
            return {"c": "gamend", "meta": m, "subj": "x%d amended" % m}
        if kind == "gmerge":
            return {"c": "gmerge", "meta": self.next_meta()}
        if kind == "gconfig":
            # stgit.push.allow-conflicts: mostly switched off (the default is on)
            self.apc = not getattr(self, "apc", True) if rng.random() < 0.8 else rng.random() < 0.5
            return {"c": "gconfig", "apc": self.apc}
        if kind == "greset":
            k = rng.random()
            allp = A + U + H
            if allp and k < 0.7:
                return {"c": "greset", "kind": "patch", "arg": rng.choice(allp)}
            if k < 0.85:
                return {"c": "greset", "kind": "base", "arg": rng.choice([0, 0, 1])}
            return {"c": "greset", "kind": "head", "arg": rng.choice([0, 1, 2])}
        if kind == "edit_msg":
            allp = A + U + H
            k = rng.random()
            last = getattr(self, "last_edit", None)
            if last is not None and k < 0.15:
                return dict(last)                                   # the same edit again: nothing changes
            if k < 0.3 or not allp:
                c = {"c": "edit", "meta": self.next_meta()}         # the top patch
            else:
                c = {"c": "edit", "loc": rng.choice(allp), "meta": self.next_meta()}
            self.last_edit = c
            return dict(c)
        if kind == "squash":
            pool = A + U if (rng.random() < 0.9 or not H) else A + U + H
            if len(pool) < 2:
                return {"c": "new", "name": self.fresh_name(view), "meta": self.next_meta()}
            k = rng.random()
            if k < 0.6:
                i = rng.randrange(0, len(pool) - 1)
                picks = pool[i:i + rng.choice([2, 2, 3])]          # neighbours
            else:
                picks = self.pick_some(pool, 3)
                if len(picks) < 2:
                    picks = pool[:2]
            x = rng.random()
            name = rng.choice(picks) if x < 0.3 else (rng.choice(A + U + H) if x < 0.4 else self.fresh_name(view))
            return {"c": "squash", "ranges": picks, "name": name, "meta": self.next_meta()}
        if kind == "pick":
            k = rng.random()
            allp = A + U + H
            fl = ["noapply"] if rng.random() < 0.3 else []
            x = rng.random()
            name = None if x < 0.4 else (rng.choice(allp) if (allp and x < 0.6) else self.fresh_name(view))
            if allp and k < 0.6:
                return {"c": "pick", "kind": "patch", "arg": rng.choice(allp), "name": name, "flags": fl}
            if k < 0.85:
                return {"c": "pick", "kind": "base", "arg": rng.choice([0, 0, 1, 2]), "name": name, "flags": fl}
            return {"c": "pick", "kind": "head", "arg": rng.choice([0, 1, 2]), "name": name, "flags": fl}
        if kind == "rebase":
            k = rng.random()
            allp = A + U
            if allp and k < 0.35:
                return {"c": "rebase", "kind": "patch", "arg": rng.choice(allp)}
            if k < 0.8:
                return {"c": "rebase", "kind": "base", "arg": rng.choice([0, 1, 1, 2])}
            return {"c": "rebase", "kind": "head", "arg": rng.choice([0, 1, 2])}
        if kind == "invalid":
            k = rng.random()
            if k < 0.3:
                return {"c": rng.choice(["hide", "unhide"]), "ranges": [rng.choice(NAMES + ["..", "nope.."])]}
            if k < 0.5:
                return {"c": "push", "flags": [], "ranges": [rng.choice(A + ["nope", "@", "{base}+1"])]}
            if k < 0.65:
                return {"c": "pop", "flags": [], "ranges": [rng.choice(U + ["nope", "^"])]}
            if k < 0.8:
                return {"c": "sink", "flags": [], "ranges": [".."], "target": rng.choice(A + U + ["nope"]), "above": False}
            return {"c": "commit", "flags": [], "ranges": [".."]}
        return {"c": "inspect", "argv": ["series"]}
