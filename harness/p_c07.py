"""C07 - reordering commands yield the documented order and preserve each patch's change

Deciding method: Coq theorems (Properties/C07.v) about the stack / command model
(Model/Stack.v, Model/Cmd.v), tied to the code by the translator (Gen/*.v) and by history-level
differential testing of the extracted model against the real stg, with direct oracles on the
real repository after every command."""

from . import histcheck

LEVEL = "proof"
PROFILES = [('REORDER', 4), ('BASIC', 1)]
ORACLES = ['content', 'c02', 'c09']


def run(ctx):
    histcheck.run_property(ctx, PROFILES, ORACLES, n_quick=48, n_thorough=800, nsteps=32 if ctx.quick() else 45,
                           own_oracle="c07")


def replay(ctx, path):
    return histcheck.replay_scenario(ctx, path, ORACLES)
