#!/usr/bin/env python3
"""Evaluate a seeded change: tools_seeded.py <property> <dir with patch.diff, demo.sh, meta.txt> [more checks...]
Applies the patch to /repo (never committed), builds, confirms the demo (0 without / 1 with the
change) and the unit tests, runs the checks, undoes the patch, and records everything under
/verif/seeded/<property>-<n>/."""
import json
import os
import shutil
import subprocess
import sys
import time

prop, src = sys.argv[1], sys.argv[2]
checks = [prop] + sys.argv[3:]
REPO = "/repo"


def sh(cmd, **kw):
    return subprocess.run(cmd, shell=isinstance(cmd, str), capture_output=True, text=True, **kw)


assert sh("git -C /repo status --porcelain").stdout.strip() == "", "/repo not clean"
env = dict(os.environ, RUSTFLAGS="--cfg stgit_verif", CARGO_TARGET_DIR="/verif/.cache/target", CARGO_NET_OFFLINE="true")
out = {"property": prop, "checks": {}, "source": src}
# baseline binary + demo
sh("cargo build --offline --quiet", cwd=REPO, env=env)
shutil.copy("/verif/.cache/target/debug/stg", "/verif/.cache/stg-seed-orig")
d0 = sh(["bash", os.path.join(src, "demo.sh"), "/verif/.cache/stg-seed-orig"])
out["demo_without_change"] = d0.returncode
# the evidence files must keep describing the UNCHANGED tree: saved here, restored below
shutil.rmtree("/verif/.cache/evidence-saved", ignore_errors=True)
shutil.copytree("/verif/evidence", "/verif/.cache/evidence-saved")
# apply
a = sh(["git", "-C", REPO, "apply", "--3way", os.path.join(src, "patch.diff")])
if a.returncode != 0:
    a = sh(["git", "-C", REPO, "apply", os.path.join(src, "patch.diff")])
out["applies"] = a.returncode == 0
if a.returncode != 0:
    print("patch does not apply:", a.stderr)
    sh("git -C /repo checkout -- . ; git -C /repo reset -q")
    sys.exit(1)
sh("git -C /repo reset -q")
try:
    b = sh("cargo build --offline --quiet", cwd=REPO, env=env)
    out["builds"] = b.returncode == 0
    shutil.copy("/verif/.cache/target/debug/stg", "/verif/.cache/stg-seed-mut")
    d1 = sh(["bash", os.path.join(src, "demo.sh"), "/verif/.cache/stg-seed-mut"])
    out["demo_with_change"] = d1.returncode
    out["demo_output_with_change"] = (d1.stdout + d1.stderr)[-600:]
    t = sh("cargo test --offline 2>&1 | grep 'test result'", cwd=REPO)
    out["unit_tests"] = t.stdout.strip()
    for c in checks:
        t0 = time.time()
        r = sh(["./check", c, "--tier", "quick"], cwd="/verif")
        lines = [l for l in r.stdout.split("\n") if l.startswith(("VIOLATION", "KNOWN-FINDING", "OK"))]
        detail = []
        for l in lines:
            if l.startswith("VIOLATION") and "replay=" in l:
                path = l.split("replay=")[1].split()[0]
                try:
                    doc = json.load(open(path))
                    detail.append({k: doc.get(k) for k in ("obligation", "why", "diff", "broken", "failing_step", "case",
                                                           "point", "argv") if doc.get(k) is not None})
                except Exception:
                    pass
        out["checks"][c] = {"exit": r.returncode, "lines": lines[:6], "detail": detail[:3],
                            "wall_s": round(time.time() - t0, 1)}
finally:
    shutil.rmtree("/verif/evidence", ignore_errors=True)
    shutil.copytree("/verif/.cache/evidence-saved", "/verif/evidence")
    sh("git -C /repo checkout -- . ; git -C /repo reset -q")
    assert sh("git -C /repo status --porcelain").stdout.strip() == ""
n = 1
while os.path.exists("/verif/seeded/%s-%d" % (prop, n)):
    n += 1
dst = "/verif/seeded/%s-%d" % (prop, n)
os.makedirs(dst)
for f in ("patch.diff", "demo.sh"):
    shutil.copy(os.path.join(src, f), dst)
meta = {"breaks_property": prop, "needs_to_manifest": open(os.path.join(src, "meta.txt")).read(),
        "confirmed": {"patch_applies": out["applies"], "builds": out.get("builds"), "unit_tests": out.get("unit_tests"),
                      "demo_exit_without_change": out["demo_without_change"],
                      "demo_exit_with_change": out.get("demo_with_change")},
        "checks_run": out["checks"],
        "detected_by": [c for c, v in out["checks"].items() if v["exit"] != 0]}
json.dump(meta, open(os.path.join(dst, "meta.json"), "w"), indent=1)
print(json.dumps(meta["confirmed"]), json.dumps(out["checks"], indent=1)[:3000])
print("saved", dst)
